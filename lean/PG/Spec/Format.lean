/-
  PG.Spec.Format — a decoder and a well-formedness predicate for ProguardCache files written
  from the documented format only (module documentation of `src/cache/mod.rs` and the field
  lists of `src/cache/raw.rs`): header (magic, version, four counts), class entries, member
  entries, member-by-params entries, string section; every section 8-byte aligned; strings are
  LEB128-length-prefixed UTF-8; 0xFFFFFFFF marks an absent string.
  It deliberately shares no code with the reader model (PG/Model/CacheRead.lean); only the
  UTF-8 predicate and byte order of PG/Model/Basic.lean are reused.
-/
import PG.Model.Basic
namespace PG
namespace Format

def absent : Nat := 4294967295

/-- little-endian u32 at the head of `bs` -/
def u32 (bs : Bytes) : Option Nat :=
  match bs.take 4 with
  | [a, b, c, d] => some (a.toNat + b.toNat * 256 + c.toNat * 65536 + d.toNat * 16777216)
  | _ => none

/-- `n` consecutive u32 words -/
def words : Nat → Bytes → Option (List Nat)
  | 0, _ => some []
  | n + 1, bs =>
    match u32 bs, words n (bs.drop 4) with
    | some w, some ws => some (w :: ws)
    | _, _ => none

/-- `n` records of `k` words each -/
def recordsOf (k : Nat) : Nat → Bytes → Option (List (List Nat))
  | 0, _ => some []
  | n + 1, bs =>
    match words k bs, recordsOf k n (bs.drop (4 * k)) with
    | some r, some rs => some (r :: rs)
    | _, _ => none

structure Decoded where
  magic : Bytes
  version : Nat
  numClasses : Nat
  numMembers : Nat
  numByParams : Nat
  stringBytes : Nat
  classes : List (List Nat)     -- obfuscated, original, file, members_offset, members_len, by_params_offset, by_params_len
  members : List (List Nat)     -- obfuscated, startline, endline, original_class, original_file, original_name, original_startline, original_endline, params
  byParams : List (List Nat)
  padding : Bytes               -- all padding bytes, concatenated
  strings : Bytes
deriving Repr

def padLen (pos : Nat) : Nat := (8 - pos % 8) % 8

/-- decode a whole file; the string section must be exactly the declared length and end the file -/
def decode (file : Bytes) : Option Decoded :=
  match words 6 file with
  | some [_, version, nc, nm, nb, sb] =>
    let p0 := 24
    let cEnd := p0 + 28 * nc
    let mStart := cEnd + padLen cEnd
    let mEnd := mStart + 36 * nm
    let bStart := mEnd + padLen mEnd
    let bEnd := bStart + 36 * nb
    let sStart := bEnd + padLen bEnd
    if file.length ≠ sStart + sb then none
    else
      match recordsOf 7 nc (file.drop p0), recordsOf 9 nm (file.drop mStart), recordsOf 9 nb (file.drop bStart) with
      | some cs, some ms, some bs =>
        some { magic := file.take 4, version := version, numClasses := nc, numMembers := nm,
               numByParams := nb, stringBytes := sb, classes := cs, members := ms, byParams := bs,
               padding := (file.drop cEnd).take (padLen cEnd) ++ (file.drop mEnd).take (padLen mEnd) ++
                          (file.drop bEnd).take (padLen bEnd),
               strings := file.drop sStart }
      | _, _, _ => none
  | _ => none

/-- unsigned LEB128 -/
def leb (fuel : Nat) (bs : Bytes) : Option (Nat × Bytes) :=
  match fuel, bs with
  | 0, _ => none
  | _, [] => none
  | fuel + 1, b :: r =>
    if b.toNat < 128 then some (b.toNat, r)
    else match leb fuel r with
      | some (hi, r') => some (b.toNat - 128 + 128 * hi, r')
      | none => none

/-- the string stored at `off` -/
def strAt (strings : Bytes) (off : Nat) : Option Bytes :=
  if off ≥ strings.length then none
  else match leb 10 (strings.drop off) with
    | some (len, r) => if len ≤ r.length ∧ validUtf8 (r.take len) then some (r.take len) else none
    | none => none

def present (strings : Bytes) (off : Nat) : Bool := (strAt strings off).isSome
def presentOrAbsent (strings : Bytes) (off : Nat) : Bool := off == absent || present strings off

def lexLt : Bytes → Bytes → Bool
  | [], [] => false
  | [], _ :: _ => true
  | _ :: _, [] => false
  | a :: as, b :: bs => a < b || (a == b && lexLt as bs)

def lexLe (a b : Bytes) : Bool := a == b || lexLt a b

def name (strings : Bytes) (off : Nat) : Bytes := (strAt strings off).getD []

/-- consecutive pairs satisfy `r` -/
def chain {α : Type} (r : α → α → Bool) : List α → Bool
  | a :: b :: rest => r a b && chain r (b :: rest)
  | _ => true

/-- the class entries' ranges tile a section exactly, in class order -/
def tiles (offLen : List (Nat × Nat)) (total : Nat) : Bool :=
  (offLen.foldl (fun (acc : Option Nat) ol => match acc with
      | some pos => if ol.1 == pos then some (pos + ol.2) else none
      | none => none) (some 0)) == some total

def memberOk (strings : Bytes) (m : List Nat) : Bool :=
  match m with
  | [obf, _, _, oc, ofile, oname, _, _, params] =>
    present strings obf && present strings oname && presentOrAbsent strings oc &&
    presentOrAbsent strings ofile && presentOrAbsent strings params
  | _ => false

def classOk (strings : Bytes) (c : List Nat) : Bool :=
  match c with
  | [obf, orig, file, _, _, _, _] =>
    present strings obf && present strings orig && presentOrAbsent strings file
  | _ => false

def memberName (strings : Bytes) (m : List Nat) : Bytes := name strings (m.getD 0 0)
def memberParams (strings : Bytes) (m : List Nat) : Bytes :=
  if m.getD 8 0 == absent then [] else name strings (m.getD 8 0)

/-- the documented layout and ordering invariants -/
def WF (d : Decoded) : Bool :=
  d.magic == [80, 82, 71, 67] && d.version == 1 &&
  d.classes.length == d.numClasses && d.members.length == d.numMembers &&
  d.byParams.length == d.numByParams && d.strings.length == d.stringBytes &&
  d.padding.all (· == 0) &&
  d.classes.all (classOk d.strings) && d.members.all (memberOk d.strings) &&
  d.byParams.all (memberOk d.strings) &&
  -- classes strictly sorted by obfuscated name
  chain (fun a b => lexLt (name d.strings (a.getD 0 0)) (name d.strings (b.getD 0 0))) d.classes &&
  -- member / by-params ranges tile their sections, in class order
  tiles (d.classes.map (fun c => (c.getD 3 0, c.getD 4 0))) d.numMembers &&
  tiles (d.classes.map (fun c => (c.getD 5 0, c.getD 6 0))) d.numByParams &&
  -- within a class: members sorted by name; by-params sorted by (name, params)
  d.classes.all (fun c =>
    chain (fun a b => lexLe (memberName d.strings a) (memberName d.strings b))
      ((d.members.drop (c.getD 3 0)).take (c.getD 4 0)) &&
    chain (fun a b =>
        lexLt (memberName d.strings a) (memberName d.strings b) ||
        (memberName d.strings a == memberName d.strings b &&
         lexLe (memberParams d.strings a) (memberParams d.strings b)))
      ((d.byParams.drop (c.getD 5 0)).take (c.getD 6 0)))

/-- decode and check; the answer of the `FMT` protocol operation -/
def check (file : Bytes) : String :=
  match decode file with
  | none => "undecodable"
  | some d => if WF d then "ok" else "ill-formed"

end Format
end PG
