/-
  PG.Model.Trace — `src/stacktrace.rs` (parse / Display) and the text and typed
  stack-trace remappers of `mapper.rs` / `cache/mod.rs`, which are the same code up to the
  three primitives they call; here they are one function parameterised by
  `rc : Bytes → Option Bytes` (remap_class) and `rf : Frame → List Frame` (remap_frame).
-/
import PG.Model.Mapper
namespace PG

structure Throwable where
  cls : Bytes
  message : Option Bytes
deriving DecidableEq, Repr, Inhabited

/-- one level of a `StackTrace`: the exception line and the frames under it -/
structure Seg where
  exception : Option Throwable
  frames : List Frame
deriving DecidableEq, Repr, Inhabited

/-- `StackTrace`: `cause: Option<Box<StackTrace>>` is a linear chain, so a trace is its top
    level followed by the list of its causes, outermost first. -/
structure Trace where
  top : Seg
  causes : List Seg
deriving DecidableEq, Repr, Inhabited

def litAt : Bytes := [97, 116, 32]                                         -- "at "
def litCausedBy : Bytes := [67, 97, 117, 115, 101, 100, 32, 98, 121, 58, 32] -- "Caused by: "
def litUnknown : Bytes := [60, 117, 110, 107, 110, 111, 119, 110, 62]       -- "<unknown>"
def litColonSpace : Bytes := [58, 32]
#guard litAt == ascii "at "
#guard litCausedBy == ascii "Caused by: "
#guard litUnknown == ascii "<unknown>"

/-! ### parsing -/

/-- `stacktrace::parse_frame` -/
def parseFrame (line : Bytes) : Option Frame :=
  let line := trim line
  match stripPrefix litAt line with
  | none => none
  | some body =>
    match body.reverse with
    | 41 :: innerRev =>
      let inner := innerRev.reverse
      match splitOnce 40 inner with
      | none => none
      | some (methodSplit, fileSplit) =>
        match rsplitOnce 46 methodSplit with
        | none => none
        | some (cls, method) =>
          match splitOnce 58 fileSplit with
          | none => none
          | some (file, ln) =>
            match parseUnsignedStr usizeBound ln with
            | none => none
            | some n => some { cls := cls, method := method, line := n, file := some file, params := none }
    | _ => none

/-- `stacktrace::parse_throwable` -/
def parseThrowable (line : Bytes) : Option Throwable :=
  let line := trim line
  let (cls, message) := match splitColonSpace line with
    | some (c, m) => (c, some m)
    | none => (line, none)
  if cls.contains 32 then none else some ⟨cls, message⟩

/-! ### Display -/

def printFrame (f : Frame) : Bytes :=
  litAt ++ f.cls ++ [46] ++ f.method ++ [40] ++ f.file.getD litUnknown ++ [58] ++ natToDec f.line ++ [41]

/-- `StackFrame::full_method` -/
def fullMethod (cls method : Bytes) : Bytes := cls ++ [46] ++ method

def printThrowable (t : Throwable) : Bytes :=
  match t.message with
  | some m => t.cls ++ litColonSpace ++ m
  | none => t.cls

def printSeg (s : Seg) : Bytes :=
  (match s.exception with
   | some e => printThrowable e ++ [10]
   | none => []) ++
  (s.frames.map (fun f => litIndent ++ printFrame f ++ [10])).flatten

def printTrace (t : Trace) : Bytes :=
  printSeg t.top ++ (t.causes.map (fun c => litCausedBy ++ printSeg c)).flatten

/-! ### `parse_stacktrace` -/

/-- fold state: finished levels (innermost last), the level being filled -/
def parseTraceLines (done : List Seg) (cur : Seg) : List Bytes → List Seg
  | [] => done ++ [cur]
  | l :: ls =>
    match parseFrame l with
    | some f => parseTraceLines done { cur with frames := cur.frames ++ [f] } ls
    | none =>
      match stripPrefix litCausedBy l with
      | some rest => parseTraceLines (done ++ [cur]) ⟨parseThrowable rest, []⟩ ls
      | none => parseTraceLines done cur ls

def parseTrace (content : Bytes) : Option Trace :=
  let lines := strLines content
  let (exc, rest) := match lines with
    | [] => (none, [])
    | l :: ls => match parseThrowable l with
      | some t => (some t, ls)
      | none => (none, l :: ls)
  match parseTraceLines [] ⟨exc, []⟩ rest with
  | [] => none
  | top :: causes => if top.exception.isSome || !top.frames.isEmpty then some ⟨top, causes⟩ else none

/-! ### text remapping (`remap_stacktrace`) -/

def remapThrowableWith (rc : Bytes → Option Bytes) (t : Throwable) : Option Throwable :=
  (rc t.cls).map (fun c => ⟨c, t.message⟩)

/-- `format_frames` -/
def formatFrames (line : Bytes) (frames : List Frame) : Bytes :=
  if frames.isEmpty then line ++ [10]
  else (frames.map (fun f => litIndent ++ printFrame f ++ [10])).flatten

def renderFirst (rc : Bytes → Option Bytes) (rf : Frame → List Frame) (line : Bytes) : Bytes :=
  match parseThrowable line with
  | none =>
    match parseFrame line with
    | none => line ++ [10]
    | some f => formatFrames line (rf f)
  | some t =>
    match remapThrowableWith rc t with
    | some t' => printThrowable t' ++ [10]
    | none => line ++ [10]

def renderRest (rc : Bytes → Option Bytes) (rf : Frame → List Frame) (line : Bytes) : Bytes :=
  match parseFrame line with
  | some f => formatFrames line (rf f)
  | none =>
    match (stripPrefix litCausedBy line).bind parseThrowable with
    | none => line ++ [10]
    | some cause =>
      match remapThrowableWith rc cause with
      | some t' => litCausedBy ++ printThrowable t' ++ [10]
      | none => line ++ [10]

def remapText (rc : Bytes → Option Bytes) (rf : Frame → List Frame) (input : Bytes) : Bytes :=
  match strLines input with
  | [] => []
  | l :: ls => renderFirst rc rf l ++ (ls.map (renderRest rc rf)).flatten

/-! ### typed remapping (`remap_stacktrace_typed`, after the `fix:` that keeps a throwable
    whose class is unknown) -/

def remapFrames (rf : Frame → List Frame) (frames : List Frame) : List Frame :=
  frames.flatMap (fun f => let r := rf f; if r.isEmpty then [f] else r)

def remapSeg (rc : Bytes → Option Bytes) (rf : Frame → List Frame) (s : Seg) : Seg :=
  { exception := s.exception.map (fun e => (remapThrowableWith rc e).getD e),
    frames := remapFrames rf s.frames }

def remapTyped (rc : Bytes → Option Bytes) (rf : Frame → List Frame) (t : Trace) : Trace :=
  { top := remapSeg rc rf t.top, causes := t.causes.map (remapSeg rc rf) }

end PG
