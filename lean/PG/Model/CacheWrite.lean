/-
  PG.Model.CacheWrite — `ProguardCache::write` (`src/cache/raw.rs`) together with the parts
  of `watto` (`StringTable::insert`, `Pod::as_bytes`) and `leb128::write::unsigned` it uses,
  and `std::io::Write::write_all` against an arbitrary sink.

  `BTreeMap`s are iterated, so they are association lists kept sorted by key with
  replace-on-equal insertion (`sortedUpsert`).
-/
import PG.Model.Mapper
namespace PG

/-! ### LEB128 and the string table -/

/-- `leb128::write::unsigned`; 10 groups of 7 bits cover every `u64` -/
def lebWriteFuel : Nat → Nat → Bytes
  | 0, _ => []
  | fuel + 1, n =>
    if n / 128 = 0 then [UInt8.ofNat (n % 128)]
    else UInt8.ofNat (n % 128 + 128) :: lebWriteFuel fuel (n / 128)

def lebWrite (n : Nat) : Bytes := lebWriteFuel 10 n

structure StrTab where
  bytes : Bytes
  index : List (Bytes × Nat)
deriving Inhabited

def StrTab.empty : StrTab := ⟨[], []⟩

/-- `StringTable::insert`; the result is the `usize` offset -/
def StrTab.insert (t : StrTab) (s : Bytes) : StrTab × Nat :=
  if s.isEmpty then (t, usizeMax)
  else match t.index.lookup s with
    | some off => (t, off)
    | none =>
      let off := t.bytes.length
      ({ bytes := t.bytes ++ (lebWrite s.length ++ s), index := (s, off) :: t.index }, off)

/-- `x as u32` -/
def asU32 (n : Nat) : Nat := n % u32Bound

/-- `string_table.insert(s) as u32` -/
def StrTab.insert32 (t : StrTab) (s : Bytes) : StrTab × Nat :=
  let r := t.insert s
  (r.1, asU32 r.2)

/-! ### raw records (`#[repr(C)]`, all fields `u32`, little endian) -/

structure RawClass where
  obfOff : Nat
  origOff : Nat
  fileOff : Nat
  membersOff : Nat
  membersLen : Nat
  bpOff : Nat
  bpLen : Nat
deriving DecidableEq, Repr, Inhabited

structure RawMember where
  obfOff : Nat
  startline : Nat
  endline : Nat
  origClassOff : Nat
  origFileOff : Nat
  origNameOff : Nat
  origStartline : Nat
  origEndline : Nat
  paramsOff : Nat
deriving DecidableEq, Repr, Inhabited

def RawClass.default : RawClass := ⟨u32Max, u32Max, u32Max, u32Max, 0, u32Max, 0⟩

def le32 (n : Nat) : Bytes :=
  [UInt8.ofNat (n % 256), UInt8.ofNat (n / 256 % 256), UInt8.ofNat (n / 65536 % 256),
   UInt8.ofNat (n / 16777216 % 256)]

def RawClass.fields (c : RawClass) : List Nat :=
  [c.obfOff, c.origOff, c.fileOff, c.membersOff, c.membersLen, c.bpOff, c.bpLen]

def RawMember.fields (m : RawMember) : List Nat :=
  [m.obfOff, m.startline, m.endline, m.origClassOff, m.origFileOff, m.origNameOff,
   m.origStartline, m.origEndline, m.paramsOff]

def encFields (fs : List Nat) : Bytes := (fs.map le32).flatten
def RawClass.enc (c : RawClass) : Bytes := encFields c.fields
def RawMember.enc (m : RawMember) : Bytes := encFields m.fields

def magicPRGC : Nat := 1128747600      -- u32::from_le_bytes(*b"PRGC")
def magicFlipped : Nat := 1347569475   -- .swap_bytes()
def cacheVersion : Nat := 1
#guard le32 magicPRGC == ascii "PRGC"
#guard le32 magicFlipped == ascii "CGRP"

/-! ### sorted association lists (`BTreeMap`) -/

def sortedUpsert {κ β : Type} (cmp : κ → κ → Ordering) (k : κ) (f : Option β → β) :
    List (κ × β) → List (κ × β)
  | [] => [(k, f none)]
  | (k', v) :: rest =>
    match cmp k k' with
    | .lt => (k, f none) :: (k', v) :: rest
    | .eq => (k', f (some v)) :: rest
    | .gt => (k', v) :: sortedUpsert cmp k f rest

/-! ### the record loop -/

structure ClassInProgress where
  name : Bytes
  cls : RawClass
  members : List (Bytes × List RawMember)
  byParams : List ((Bytes × Bytes) × List RawMember)
  unique : List (Bytes × Bytes × Bytes)
deriving Inhabited

def ClassInProgress.empty : ClassInProgress := ⟨[], RawClass.default, [], [], []⟩

structure WState where
  tab : StrTab
  classes : List (Bytes × ClassInProgress)
  cur : ClassInProgress
deriving Inhabited

def WState.init : WState := ⟨StrTab.empty, [], ClassInProgress.empty⟩

/-- `if !current_class.name.is_empty() { classes.insert(name, current_class) }` -/
def flushCip (classes : List (Bytes × ClassInProgress)) (c : ClassInProgress) :
    List (Bytes × ClassInProgress) :=
  if c.name.isEmpty then classes else sortedUpsert cmpBytes c.name (fun _ => c) classes

/-- the four `u32` line fields of a member -/
def rawLines (lm : Option LineMapping) : Nat × Nat × Nat × Nat :=
  match lm with
  | none => (0, 0, 0, u32Max)
  | some l =>
    match l.originalStartline with
    | some os => (asU32 l.startline, asU32 l.endline, asU32 os,
        match l.originalEndline with
        | some oe => asU32 oe
        | none => u32Max)
    | none => (asU32 l.startline, asU32 l.endline, asU32 l.startline, asU32 l.endline)

def writeStep (st : WState) (r : Record) (next : Option Record) : WState :=
  match r with
  | .header key value =>
    if key == litSourceFile then
      -- after the `fix:` (a value-less header resets the file name, as in the mapper)
      match value with
      | some v =>
        let (tab, off) := st.tab.insert32 v
        { st with tab := tab, cur := { st.cur with cls := { st.cur.cls with fileOff := off } } }
      | none => { st with cur := { st.cur with cls := { st.cur.cls with fileOff := u32Max } } }
    else st
  | .cls original obfuscated =>
    let classes := flushCip st.classes st.cur
    let (tab, obfOff) := st.tab.insert32 obfuscated
    let (tab, origOff) := tab.insert32 original
    { tab := tab, classes := classes,
      cur := { ClassInProgress.empty with
                name := obfuscated,
                cls := { RawClass.default with origOff := origOff, obfOff := obfOff } } }
  | .field .. => st
  | .method _ original obfuscated arguments fc lm =>
    let (s, e, os, oe) := rawLines lm
    let (tab, obfOff) := st.tab.insert32 obfuscated
    let (tab, origOff) := tab.insert32 original
    let (tab, fcOff) := match fc with
      | some c => tab.insert32 c
      | none => (tab, u32Max)
    let (tab, paramsOff) := tab.insert32 arguments
    let member : RawMember :=
      { obfOff := obfOff, startline := s, endline := e, origClassOff := fcOff,
        origFileOff := st.cur.cls.fileOff, origNameOff := origOff, origStartline := os,
        origEndline := oe, paramsOff := paramsOff }
    let cur1 : ClassInProgress :=
      { st.cur with
        members := sortedUpsert cmpBytes obfuscated (fun o => o.getD [] ++ [member]) st.cur.members,
        cls := { st.cur.cls with membersLen := st.cur.cls.membersLen + 1 } }
    if sameRangeAsNext lm next then { st with tab := tab, cur := cur1 }
    else
      let key := (obfuscated, arguments, original)
      if cur1.unique.contains key then { st with tab := tab, cur := cur1 }
      else
        { st with
          tab := tab,
          cur := { cur1 with
            unique := key :: cur1.unique,
            byParams := sortedUpsert cmpPair (obfuscated, arguments)
                          (fun o => o.getD [] ++ [member]) cur1.byParams,
            cls := { cur1.cls with bpLen := cur1.cls.bpLen + 1 } } }

def writeGo (st : WState) : List Record → WState
  | [] => st
  | r :: rest => writeGo (writeStep st r rest.head?) rest

/-! ### assembling the sections -/

structure Tables where
  classes : List RawClass
  members : List RawMember
  byParams : List RawMember
  strings : Bytes
deriving Inhabited

/-- the `for mut c in classes.into_values()` loop (after the `fix:` of the by-params offset) -/
def assemble : List ClassInProgress → List RawClass → List RawMember → List RawMember →
    List RawClass × List RawMember × List RawMember
  | [], cs, ms, bps => (cs, ms, bps)
  | c :: rest, cs, ms, bps =>
    let cls := { c.cls with membersOff := asU32 ms.length, bpOff := asU32 bps.length }
    assemble rest (cs ++ [cls]) (ms ++ (c.members.map (·.2)).flatten)
      (bps ++ (c.byParams.map (·.2)).flatten)

def Tables.build (recs : List Record) : Tables :=
  let st := writeGo WState.init recs
  let classes := flushCip st.classes st.cur
  let (cs, ms, bps) := assemble (classes.map (·.2)) [] [] []
  ⟨cs, ms, bps, st.tab.bytes⟩

def pad8 (n : Nat) : Nat := (8 - n % 8) % 8
def zeros (n : Nat) : Bytes := List.replicate n 0

def encHeader (nc nm nb sb : Nat) : Bytes :=
  encFields [magicPRGC, cacheVersion, asU32 nc, asU32 nm, asU32 nb, asU32 sb]

/-- the sequence of `write_all` calls of `ProguardCache::write` (empty chunks make no call) -/
def Tables.chunks (t : Tables) : List Bytes :=
  let cb := t.classes.map RawClass.enc
  let mb := (t.members.map RawMember.enc).flatten
  let bb := (t.byParams.map RawMember.enc).flatten
  [encHeader t.classes.length (t.classes.map (·.membersLen)).sum (t.classes.map (·.bpLen)).sum
     t.strings.length,
   zeros (pad8 24)] ++ cb ++
  [zeros (pad8 (28 * t.classes.length)), mb, zeros (pad8 mb.length), bb, zeros (pad8 bb.length),
   t.strings]

def Cache.writeChunks (recs : List Record) : List Bytes := (Tables.build recs).chunks
/-- `ProguardCache::write` into a `Vec<u8>` -/
def Cache.write (recs : List Record) : Bytes := (Cache.writeChunks recs).flatten
def Cache.writeBytes (bs : Bytes) : Bytes := Cache.write (okRecs (records bs))

/-! ### sinks and `write_all` -/

inductive Resp where
  | accept (k : Nat)
  | interrupted
  | fail
deriving DecidableEq, Repr

inductive WriteResult where
  | ok
  | writeZero
  | failed
  | outOfFuel
deriving DecidableEq, Repr

/-- A sink with private state `σ`: given its state and the length of the offered buffer it
    answers and moves to a new state.  `accept k` takes `min k len` bytes. -/
structure SinkRun (σ : Type) where
  state : σ
  accepted : Bytes
  result : WriteResult

/-- `Write::write_all(buf)` against `sink`; every `write` call consumes one unit of fuel -/
def writeAll {σ : Type} (sink : σ → Nat → Resp × σ) : Nat → σ → Bytes → Bytes → SinkRun σ
  | _, s, acc, [] => ⟨s, acc, .ok⟩
  | 0, s, acc, _ :: _ => ⟨s, acc, .outOfFuel⟩
  | fuel + 1, s, acc, b :: bs =>
    match sink s (b :: bs).length with
    | (.accept k, s') =>
      if k = 0 then ⟨s', acc, .writeZero⟩
      else writeAll sink fuel s' (acc ++ (b :: bs).take k) ((b :: bs).drop k)
    | (.interrupted, s') => writeAll sink fuel s' acc (b :: bs)
    | (.fail, s') => ⟨s', acc, .failed⟩

/-- the chunk sequence through `write_all`, stopping at the first error -/
def writeChunksTo {σ : Type} (sink : σ → Nat → Resp × σ) (fuel : Nat) :
    σ → Bytes → List Bytes → SinkRun σ
  | s, acc, [] => ⟨s, acc, .ok⟩
  | s, acc, c :: cs =>
    let r := writeAll sink fuel s acc c
    match r.result with
    | .ok => writeChunksTo sink fuel r.state r.accepted cs
    | _ => r

def Cache.writeTo {σ : Type} (sink : σ → Nat → Resp × σ) (fuel : Nat) (s : σ)
    (recs : List Record) : SinkRun σ :=
  writeChunksTo sink fuel s [] (Cache.writeChunks recs)

end PG
