/-
  PG.Model.Pinned — frozen model of the cache *reader* of the pinned release 5.5.0
  (`/verif/pinned`), for C10.  It reads the same version-1 layout; the only behavioural
  difference from the current reader on the queries compared by C10 is the unchecked line
  arithmetic `original_startline + frame.line - startline` (cache/mod.rs:463 of 5.5.0),
  which is modelled as an explicit fault (`none`) when it leaves `usize`.
  This file must not follow later changes of `CacheRead.lean`'s `lineFrame`.
-/
import PG.Model.CacheRead
namespace PG
namespace Pinned

/-- `os + line - start` in checked `usize` arithmetic -/
def uncheckedLine (os line start : Nat) : Option Nat :=
  if os + line ≥ usizeBound then none
  else if os + line < start then none
  else some (os + line - start)

/-- outer `none` = fault; inner `none` = entry skipped -/
def lineFrame (c : Cache) (frame : Frame) (m : RawMember) : Option (Option Frame) :=
  if m.endline > 0 && (frame.line < m.startline || frame.line > m.endline) then some none
  else
    let line? :=
      if m.origEndline == u32Max || m.origEndline == m.origStartline then some m.origStartline
      else uncheckedLine m.origStartline frame.line m.startline
    match line? with
    | none => none
    | some line =>
      let cls := (c.str m.origClassOff).getD frame.cls
      let file : Option (Option Bytes) :=
        if m.origFileOff != u32Max then
          match c.str m.origFileOff with
          | none => none
          | some fname =>
            if fname == litSynthetic then some (some (extractClassName cls)) else some (some fname)
        else if m.origClassOff != u32Max then some none
        else some frame.file
      match file, c.str m.origNameOff with
      | some file, some method =>
        some (some { cls := cls, method := method, line := line, file := file, params := frame.params })
      | _, _ => some none

def lineFrames (c : Cache) (frame : Frame) : List RawMember → Option (List Frame)
  | [] => some []
  | m :: ms =>
    match lineFrame c frame m with
    | none => none
    | some r =>
      match lineFrames c frame ms with
      | none => none
      | some rest => some (match r with
                           | some f => f :: rest
                           | none => rest)

/-- `remap_frame(..).collect()` of the 5.5.0 reader; `none` = arithmetic fault (panic in a
    build with overflow checks) -/
def remapFrame (c : Cache) (frame : Frame) : Option (List Frame) :=
  match c.getClass frame.cls with
  | none => some []
  | some k =>
    match c.str k.origOff with
    | none => some []
    | some orig =>
      let frame' := { frame with cls := orig }
      match frame.params with
      | some p =>
        match c.classByParams k with
        | none => some []
        | some ms =>
          match findRange ms (fun m => c.cmpNameParams m frame.method p) with
          | none => some []
          | some r => some (c.paramFrames frame' r)
      | none =>
        match c.classMembers k with
        | none => some []
        | some ms =>
          match findRange ms (fun m => c.cmpName m.obfOff frame.method) with
          | none => some []
          | some r => lineFrames c frame' r

end Pinned
end PG
