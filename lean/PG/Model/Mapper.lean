/-
  PG.Model.Mapper — `src/mapper.rs`: building the in-memory mapper from the record
  stream and answering class / method / frame queries.

  `HashMap`s are never iterated by the crate, so they are association lists with
  "newest binding first" (`insert` = cons, `get` = first match).
-/
import PG.Model.Parser
namespace PG

structure Frame where
  cls : Bytes
  method : Bytes
  line : Nat
  file : Option Bytes
  params : Option Bytes
deriving DecidableEq, Repr, Inhabited

structure MemberMapping where
  startline : Nat
  endline : Nat
  originalClass : Option Bytes
  originalFile : Option Bytes
  original : Bytes
  originalStartline : Nat
  originalEndline : Option Nat
deriving DecidableEq, Repr, Inhabited

structure ClassMembers where
  all : List MemberMapping
  byParams : List (Bytes × List MemberMapping)
deriving Repr, Inhabited

structure ClassMapping where
  original : Bytes
  obfuscated : Bytes
  fileName : Option Bytes
  members : List (Bytes × ClassMembers)
deriving Repr, Inhabited

structure Mapper where
  classes : List (Bytes × ClassMapping)
deriving Repr, Inhabited

def litSynthetic : Bytes :=      -- "R8$$SyntheticClass"
  [82, 56, 36, 36, 83, 121, 110, 116, 104, 101, 116, 105, 99, 67, 108, 97, 115, 115]
#guard litSynthetic == ascii "R8$$SyntheticClass"

/-! ### building -/

structure BuildState where
  classes : List (Bytes × ClassMapping)
  cur : ClassMapping
  unique : List (Bytes × Bytes × Bytes)
deriving Inhabited

def emptyClass : ClassMapping := ⟨[], [], none, []⟩

/-- `if !class.original.is_empty() { classes.insert(class.obfuscated, class) }` -/
def flushClass (classes : List (Bytes × ClassMapping)) (c : ClassMapping) :
    List (Bytes × ClassMapping) :=
  if c.original.isEmpty then classes else (c.obfuscated, c) :: classes

/-- the "next record has the same leading range" test shared by mapper and cache writer -/
def sameRangeAsNext (cur : Option LineMapping) (next : Option Record) : Bool :=
  match next, cur with
  | some (.method _ _ _ _ _ (some nl)), some cl =>
    cl.startline == nl.startline && cl.endline == nl.endline
  | _, _ => false

def memberOf (original : Bytes) (fc : Option Bytes) (lm : Option LineMapping)
    (file : Option Bytes) : MemberMapping :=
  match lm with
  | none => ⟨0, 0, fc, file, original, 0, none⟩
  | some l =>
    match l.originalStartline with
    | some os => ⟨l.startline, l.endline, fc, file, original, os, l.originalEndline⟩
    | none => ⟨l.startline, l.endline, fc, file, original, l.startline, some l.endline⟩

def buildStep (pm : Bool) (st : BuildState) (r : Record) (next : Option Record) : BuildState :=
  match r with
  | .header key value =>
    if key == litSourceFile then { st with cur := { st.cur with fileName := value } } else st
  | .cls original obfuscated =>
    { classes := flushClass st.classes st.cur,
      cur := ⟨original, obfuscated, none, []⟩,
      unique := [] }
  | .field .. => st
  | .method _ original obfuscated arguments fc lm =>
    let mm := memberOf original fc lm st.cur.fileName
    let cm := (st.cur.members.lookup obfuscated).getD ⟨[], []⟩
    let cm1 : ClassMembers := { cm with all := cm.all ++ [mm] }
    if !pm then
      { st with cur := { st.cur with members := (obfuscated, cm1) :: st.cur.members } }
    else if sameRangeAsNext lm next then
      { st with cur := { st.cur with members := (obfuscated, cm1) :: st.cur.members } }
    else
      let key := (obfuscated, arguments, original)
      if st.unique.contains key then
        { st with cur := { st.cur with members := (obfuscated, cm1) :: st.cur.members } }
      else
        let old := (cm1.byParams.lookup arguments).getD []
        let cm2 : ClassMembers := { cm1 with byParams := (arguments, old ++ [mm]) :: cm1.byParams }
        { st with
          cur := { st.cur with members := (obfuscated, cm2) :: st.cur.members },
          unique := key :: st.unique }

def buildGo (pm : Bool) (st : BuildState) : List Record → BuildState
  | [] => st
  | r :: rest => buildGo pm (buildStep pm st r rest.head?) rest

def Mapper.build (recs : List Record) (pm : Bool) : Mapper :=
  let st := buildGo pm ⟨[], emptyClass, []⟩ recs
  ⟨flushClass st.classes st.cur⟩

def Mapper.ofBytes (bs : Bytes) (pm : Bool) : Mapper := Mapper.build (okRecs (records bs)) pm

/-! ### queries -/

def Mapper.remapClass (m : Mapper) (c : Bytes) : Option Bytes :=
  (m.classes.lookup c).map (·.original)

def Mapper.remapMethod (m : Mapper) (c meth : Bytes) : Option (Bytes × Bytes) :=
  match m.classes.lookup c with
  | none => none
  | some cm =>
    match cm.members.lookup meth with
    | none => none
    | some ms =>
      match ms.all with
      | [] => none
      | first :: rest =>
        if rest.all (fun x => x.original == first.original) then some (cm.original, first.original)
        else none

/-- `extract_class_name`: last `.`-segment, up to its first `$` -/
def extractClassName (full : Bytes) : Bytes :=
  let last := match rsplitOnce 46 full with
    | some (_, l) => l
    | none => full
  last.takeWhile (· != 36)

/-- `a.saturating_add(b)` on `usize` -/
def satAdd (a b : Nat) : Nat := if a + b < usizeBound then a + b else usizeMax

/-- the original line of one entry (after the `fix:` of mapper.rs:133 / cache/mod.rs:463:
    `os.saturating_add(line).saturating_sub(start)`) -/
def origLine (os : Nat) (oe : Option Nat) (start line : Nat) : Nat :=
  if oe.isNone || oe == some os then os else satAdd os line - start

def fileRule (file : Option Bytes) (fc : Option Bytes) (frameCls : Bytes) (frameFile : Option Bytes) :
    Option Bytes :=
  match file with
  | some fname =>
    if fname == litSynthetic then some (extractClassName (fc.getD frameCls)) else some fname
  | none => if fc.isSome then none else frameFile

/-- one step of `iterate_with_lines`: `none` = the entry is skipped -/
def lineFrame (frame : Frame) (m : MemberMapping) : Option Frame :=
  if m.endline > 0 && (frame.line < m.startline || frame.line > m.endline) then none
  else some
    { cls := m.originalClass.getD frame.cls,
      method := m.original,
      line := origLine m.originalStartline m.originalEndline m.startline frame.line,
      file := fileRule m.originalFile m.originalClass frame.cls frame.file,
      params := frame.params }

def paramFrame (frame : Frame) (m : MemberMapping) : Frame :=
  { cls := m.originalClass.getD frame.cls, method := m.original, line := 0, file := none,
    params := frame.params }

def Mapper.remapFrame (m : Mapper) (frame : Frame) : List Frame :=
  match m.classes.lookup frame.cls with
  | none => []
  | some cm =>
    match cm.members.lookup frame.method with
    | none => []
    | some ms =>
      let frame' := { frame with cls := cm.original }
      match frame.params with
      | some p =>
        match ms.byParams.lookup p with
        | none => []
        | some typed => typed.map (paramFrame frame')
      | none => ms.all.filterMap (lineFrame frame')

end PG
