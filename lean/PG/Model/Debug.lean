/-
  PG.Model.Debug — `src/cache/debug.rs`: the `Display` view of a parsed cache
  (`ProguardCache::display()`), "very similar to the original proguard format".
  The Rust code `unwrap()`s the reads of class names and member names, so it panics on caches
  whose offsets do not resolve; that is modelled as `none`.
-/
import PG.Model.CacheRead
namespace PG

def litClassColon : Bytes := [58]                                   -- ":"
def litRet : Bytes := [58, 60, 114, 101, 116, 62, 32]               -- ":<ret> "
def litSourceFileJson : Bytes :=                                    -- `# {"id":"sourceFile","fileName":"`
  [35, 32, 123, 34, 105, 100, 34, 58, 34, 115, 111, 117, 114, 99, 101, 70, 105, 108, 101, 34, 44, 34,
   102, 105, 108, 101, 78, 97, 109, 101, 34, 58, 34]
def litJsonEnd : Bytes := [34, 125]                                 -- `"}`

namespace Cache

/-- `impl Display for ClassDebug` -/
def displayClass (c : Cache) (k : RawClass) : Option Bytes :=
  match c.str k.origOff, c.str k.obfOff with
  | some orig, some obf =>
    let head := orig ++ litArrow ++ obf ++ litClassColon
    match c.str k.fileOff with
    | some f => some (head ++ [10] ++ litSourceFileJson ++ f ++ litJsonEnd)
    | none => some head
  | _, _ => none

/-- `impl Display for MemberDebug` -/
def displayMember (c : Cache) (m : RawMember) : Option Bytes :=
  match c.str m.origNameOff, c.str m.obfOff with
  | some name, some obf =>
    some (litIndent ++ natToDec m.startline ++ [58] ++ natToDec m.endline ++ litRet
      ++ (match c.str m.origClassOff with
          | some oc => oc ++ [46]
          | none => [])
      ++ name ++ [40] ++ (c.str m.paramsOff).getD [] ++ [41, 58] ++ natToDec m.origStartline
      ++ (if m.origEndline != u32Max then [58] ++ natToDec m.origEndline else [])
      ++ litArrow ++ obf)
  | _, _ => none

def displayMembers (c : Cache) : List RawMember → Option Bytes
  | [] => some []
  | m :: ms =>
    match c.displayMember m, displayMembers c ms with
    | some a, some b => some (a ++ [10] ++ b)
    | _, _ => none

/-- the member lines of one class (`let Some(members) = … else continue`) -/
def displayClassMembers (c : Cache) (k : RawClass) : Option Bytes :=
  match c.classMembers k with
  | none => some []
  | some ms => c.displayMembers ms

def displayClasses (c : Cache) : List RawClass → Option Bytes
  | [] => some []
  | k :: ks =>
    match c.displayClass k, c.displayClassMembers k, displayClasses c ks with
    | some a, some b, some r => some (a ++ [10] ++ b ++ r)
    | _, _, _ => none

/-- `cache.display().to_string()`; `none` = the Rust code panics -/
def display (c : Cache) : Option Bytes := c.displayClasses c.classes

end Cache
end PG
