/-
  PG.Model.Java — `src/java.rs`: JVM descriptor deobfuscation, and
  `DeobfuscatedSignature::format_signature` (`mapper.rs`).  The two Rust copies
  (mapper / cache) differ only in the class lookup they call: one model function,
  parameterised by `rc`.
-/
import PG.Model.Basic
namespace PG

/-- `java_base_types` -/
def javaBaseType (b : UInt8) : Option Bytes :=
  if b == 90 then some [98, 111, 111, 108, 101, 97, 110]        -- Z boolean
  else if b == 66 then some [98, 121, 116, 101]                 -- B byte
  else if b == 67 then some [99, 104, 97, 114]                  -- C char
  else if b == 83 then some [115, 104, 111, 114, 116]           -- S short
  else if b == 73 then some [105, 110, 116]                     -- I int
  else if b == 74 then some [108, 111, 110, 103]                -- J long
  else if b == 70 then some [102, 108, 111, 97, 116]            -- F float
  else if b == 68 then some [100, 111, 117, 98, 108, 101]       -- D double
  else if b == 86 then some [118, 111, 105, 100]                -- V void
  else none

#guard javaBaseType 90 == some (ascii "boolean") && javaBaseType 66 == some (ascii "byte")
#guard javaBaseType 67 == some (ascii "char") && javaBaseType 83 == some (ascii "short")
#guard javaBaseType 73 == some (ascii "int") && javaBaseType 74 == some (ascii "long")
#guard javaBaseType 70 == some (ascii "float") && javaBaseType 68 == some (ascii "double")
#guard javaBaseType 86 == some (ascii "void")

def litBrackets : Bytes := [91, 93]   -- "[]"
def litVoid : Bytes := [118, 111, 105, 100]

/-- `byte_code_type_to_java_type`; `suffix` accumulates one `[]` per `[` -/
def typeToJava (rc : Bytes → Option Bytes) (suffix : Bytes) : Bytes → Option Bytes
  | [] => none
  | b :: rest =>
    if b == 76 then          -- 'L'
      match rest.reverse with
      | 59 :: midRev =>
        let obf := midRev.reverse.map (fun c => if c == 47 then 46 else c)
        some ((rc obf).getD obf ++ suffix)
      | _ => none
    else if b == 91 then typeToJava rc (suffix ++ litBrackets) rest
    else match javaBaseType b with
      | some ty => some (ty ++ suffix)
      | none => typeToJava rc suffix rest

/-- the parameter scanner of `parse_obfuscated_bytecode_signature`.
    `inObj`: inside an `L…;`; `cur`: bytes since `first_idx`. -/
def scanParams (inObj : Bool) (cur : Bytes) : Bytes → Option (List Bytes)
  | [] => if inObj then none else some []
  | b :: bs =>
    if inObj then
      if b == 59 then (scanParams false [] bs).map (fun l => (cur ++ [b]) :: l)
      else scanParams true (cur ++ [b]) bs
    else if b == 76 then scanParams true (cur ++ [b]) bs
    else if b == 91 then scanParams false (cur ++ [b]) bs
    else if (javaBaseType b).isSome then (scanParams false [] bs).map (fun l => (cur ++ [b]) :: l)
    else scanParams false (cur ++ [b]) bs

/-- `parse_obfuscated_bytecode_signature` -/
def parseSignature (sig : Bytes) : Option (List Bytes × Bytes) :=
  match sig with
  | 40 :: s =>
    match rsplitOnce 41 s with
    | none => none
    | some (params, ret) =>
      if ret.isEmpty then none
      else (scanParams false [] params).map (fun tys => (tys, ret))
  | _ => none

/-- `deobfuscate_bytecode_signature{,_cache}` -/
def deobfuscateSignature (rc : Bytes → Option Bytes) (sig : Bytes) : Option (List Bytes × Bytes) :=
  match parseSignature sig with
  | none => none
  | some (tys, ret) =>
    let ps := (tys.filter (fun t => !t.isEmpty)).filterMap (typeToJava rc [])
    match typeToJava rc [] ret with
    | none => none
    | some r => some (ps, r)

def intercalate (sep : Bytes) : List Bytes → Bytes
  | [] => []
  | [x] => x
  | x :: y :: rest => x ++ sep ++ intercalate sep (y :: rest)

/-- `DeobfuscatedSignature::format_signature` -/
def formatSignature (ps : List Bytes) (ret : Bytes) : Bytes :=
  [40] ++ intercalate [44, 32] ps ++ [41] ++
    (if !ret.isEmpty && ret != litVoid then [58, 32] ++ ret else [])

end PG
