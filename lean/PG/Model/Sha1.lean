/-
  PG.Model.Sha1 — SHA-1 (FIPS 180-4) and version-5 UUIDs (RFC 4122), the reference for
  `ProguardMapping::uuid`.
-/
import PG.Model.Basic
namespace PG

def rotl32 (x : UInt32) (n : UInt32) : UInt32 := (x <<< n) ||| (x >>> (32 - n))

def be32 (a b c d : UInt8) : UInt32 :=
  (a.toUInt32 <<< 24) ||| (b.toUInt32 <<< 16) ||| (c.toUInt32 <<< 8) ||| d.toUInt32

def be32Bytes (x : UInt32) : Bytes :=
  [(x >>> 24).toUInt8, (x >>> 16).toUInt8, (x >>> 8).toUInt8, x.toUInt8]

def be64Bytes (n : Nat) : Bytes :=
  [UInt8.ofNat (n / 72057594037927936 % 256), UInt8.ofNat (n / 281474976710656 % 256),
   UInt8.ofNat (n / 1099511627776 % 256), UInt8.ofNat (n / 4294967296 % 256),
   UInt8.ofNat (n / 16777216 % 256), UInt8.ofNat (n / 65536 % 256),
   UInt8.ofNat (n / 256 % 256), UInt8.ofNat (n % 256)]

/-- message ++ 0x80 ++ zeros ++ 64-bit big-endian bit length; total a multiple of 64 -/
def sha1Pad (msg : Bytes) : Bytes :=
  let l := msg.length
  let k := (119 - l % 64) % 64          -- zeros so that l + 1 + k ≡ 56 (mod 64)
  msg ++ [0x80] ++ List.replicate k 0 ++ be64Bytes (8 * l)

def wordsOf : Bytes → List UInt32
  | a :: b :: c :: d :: r => be32 a b c d :: wordsOf r
  | _ => []

structure Sha1State where
  h0 : UInt32
  h1 : UInt32
  h2 : UInt32
  h3 : UInt32
  h4 : UInt32

def sha1Init : Sha1State := ⟨0x67452301, 0xEFCDAB89, 0x98BADCFE, 0x10325476, 0xC3D2E1F0⟩

/-- extend 16 words to 80; `w` is kept newest-first -/
def sha1Extend : Nat → List UInt32 → List UInt32
  | 0, w => w
  | n + 1, w =>
    match w with
    | _ :: _ :: w3 :: _ :: _ :: _ :: _ :: w8 :: _ :: _ :: _ :: _ :: _ :: w14 :: _ :: w16 :: _ =>
      sha1Extend n (rotl32 (w3 ^^^ w8 ^^^ w14 ^^^ w16) 1 :: w)
    | _ => w

def sha1Round (t : Nat) (s : Sha1State) (w : UInt32) : Sha1State :=
  let (f, k) :=
    if t < 20 then ((s.h1 &&& s.h2) ||| ((~~~ s.h1) &&& s.h3), (0x5A827999 : UInt32))
    else if t < 40 then (s.h1 ^^^ s.h2 ^^^ s.h3, (0x6ED9EBA1 : UInt32))
    else if t < 60 then ((s.h1 &&& s.h2) ||| (s.h1 &&& s.h3) ||| (s.h2 &&& s.h3), (0x8F1BBCDC : UInt32))
    else (s.h1 ^^^ s.h2 ^^^ s.h3, (0xCA62C1D6 : UInt32))
  let temp := rotl32 s.h0 5 + f + s.h4 + k + w
  ⟨temp, s.h0, rotl32 s.h1 30, s.h2, s.h3⟩

def sha1Rounds : Nat → Sha1State → List UInt32 → Sha1State
  | _, s, [] => s
  | t, s, w :: ws => sha1Rounds (t + 1) (sha1Round t s w) ws

def sha1Block (s : Sha1State) (block : List UInt32) : Sha1State :=
  let w := (sha1Extend 64 block.reverse).reverse
  let r := sha1Rounds 0 s w
  ⟨s.h0 + r.h0, s.h1 + r.h1, s.h2 + r.h2, s.h3 + r.h3, s.h4 + r.h4⟩

def sha1Blocks : Nat → Sha1State → List UInt32 → Sha1State
  | 0, s, _ => s
  | n + 1, s, ws => if ws.isEmpty then s else sha1Blocks n (sha1Block s (ws.take 16)) (ws.drop 16)

def sha1 (msg : Bytes) : Bytes :=
  let ws := wordsOf (sha1Pad msg)
  let s := sha1Blocks (ws.length / 16 + 1) sha1Init ws
  be32Bytes s.h0 ++ be32Bytes s.h1 ++ be32Bytes s.h2 ++ be32Bytes s.h3 ++ be32Bytes s.h4

/-- RFC 4122 §4.3: SHA-1 of namespace ++ name, first 16 bytes, version 5, variant 10 -/
def uuidV5 (ns name : Bytes) : Bytes :=
  match (sha1 (ns ++ name)).take 16 with
  | [b0, b1, b2, b3, b4, b5, b6, b7, b8, b9, b10, b11, b12, b13, b14, b15] =>
    [b0, b1, b2, b3, b4, b5, (b6 &&& 0x0F) ||| 0x50, b7, (b8 &&& 0x3F) ||| 0x80, b9, b10, b11,
     b12, b13, b14, b15]
  | other => other

/-- `Uuid::NAMESPACE_DNS` = 6ba7b810-9dad-11d1-80b4-00c04fd430c8 -/
def nsDNS : Bytes :=
  [0x6b, 0xa7, 0xb8, 0x10, 0x9d, 0xad, 0x11, 0xd1, 0x80, 0xb4, 0x00, 0xc0, 0x4f, 0xd4, 0x30, 0xc8]

def litGuardsquare : Bytes :=
  [103, 117, 97, 114, 100, 115, 113, 117, 97, 114, 101, 46, 99, 111, 109]
#guard litGuardsquare == ascii "guardsquare.com"

def nsGuardsquare : Bytes := uuidV5 nsDNS litGuardsquare

/-- `ProguardMapping::uuid` -/
def mappingUuid (bs : Bytes) : Bytes := uuidV5 nsGuardsquare bs

end PG
