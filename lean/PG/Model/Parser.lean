/-
  PG.Model.Parser — `src/mapping.rs`: the record parser and the record iterator.
-/
import PG.Model.Basic
namespace PG

structure LineMapping where
  startline : Nat
  endline : Nat
  originalStartline : Option Nat
  originalEndline : Option Nat
deriving DecidableEq, Repr, Inhabited

inductive Record where
  | header (key : Bytes) (value : Option Bytes)
  | cls (original obfuscated : Bytes)
  | field (ty original obfuscated : Bytes)
  | method (ty original obfuscated arguments : Bytes) (originalClass : Option Bytes)
      (lineMapping : Option LineMapping)
deriving DecidableEq, Repr, Inhabited

/-- one item of `ProguardMapping::iter()` -/
inductive Item where
  | ok (r : Record)
  | err (line : Bytes)
deriving DecidableEq, Repr, Inhabited

/-! ### literals (checked against the ASCII strings by `#guard`) -/

def litArrow : Bytes := [32, 45, 62, 32]                       -- " -> "
def litIndent : Bytes := [32, 32, 32, 32]                      -- "    "
def litSourceFile : Bytes := [115, 111, 117, 114, 99, 101, 70, 105, 108, 101]  -- "sourceFile"
/-- ` {"id":"sourceFile","fileName":"` -/
def litSourceFilePrefix : Bytes :=
  [32, 123, 34, 105, 100, 34, 58, 34, 115, 111, 117, 114, 99, 101, 70, 105, 108, 101, 34, 44,
   34, 102, 105, 108, 101, 78, 97, 109, 101, 34, 58, 34]
def litQuoteBrace : Bytes := [34, 125]                         -- `"}`

#guard litArrow == ascii " -> "
#guard litIndent == ascii "    "
#guard litSourceFile == ascii "sourceFile"
#guard litSourceFilePrefix == ascii " {\"id\":\"sourceFile\",\"fileName\":\""
#guard litSourceFilePrefix.length == 32
#guard litQuoteBrace == ascii "\"}"

/-! ### sub-parsers -/

/-- `parse_until`: up to the first byte satisfying `p` (or the end); fails iff that slice
    is not valid UTF-8. -/
def parseUntil (p : UInt8 → Bool) (bs : Bytes) : Option (Bytes × Bytes) :=
  let sr := spanUntil p bs
  if validUtf8 sr.1 then some sr else none

/-- `parse_until_no_newline`: like `parse_until` with newline added to the stop set, but
    stopping *at* a newline is an error. -/
def parseUntilNoNewline (p : UInt8 → Bool) (bs : Bytes) : Option (Bytes × Bytes) :=
  match parseUntil (fun b => isNewline b || p b) bs with
  | none => none
  | some (s, r) =>
    match r with
    | b :: _ => if isNewline b then none else some (s, r)
    | [] => some (s, r)

def consumeNewlines (bs : Bytes) : Bytes := bs.dropWhile isNewline

/-- `split_line`: the line including its first terminator byte, and the rest -/
def splitLine (bs : Bytes) : Bytes × Bytes :=
  match bs.dropWhile (fun b => !isNewline b) with
  | [] => (bs, [])
  | nl :: r => (bs.takeWhile (fun b => !isNewline b) ++ [nl], r)

/-- `original.rsplitn(2, '.')` : (method name, foreign class) -/
def splitForeign (original : Bytes) : Bytes × Option Bytes :=
  match rsplitOnce 46 original with
  | some (c, m) => (m, some c)
  | none => (original, none)

/-! ### record parsers (`Option` = `Result<_, ParseError>` with the error forgotten: every
    error is replaced by the generic one in `parse_proguard_record`) -/

def parseHeader (bs : Bytes) : Option (Record × Bytes) :=
  match stripPrefix [35] bs with
  | none => none
  | some bs =>
    match stripPrefix litSourceFilePrefix bs with
    | some bs =>
      match parseUntilNoNewline (· == 34) bs with
      | none => none
      | some (value, bs) =>
        match stripPrefix litQuoteBrace bs with
        | none => none
        | some bs => some (.header litSourceFile (some value), consumeNewlines bs)
    | none =>
      match parseUntil (fun c => c == 58 || isNewline c) bs with
      | none => none
      | some (key, bs) =>
        match stripPrefix [58] bs with
        | some bs =>
          match parseUntil isNewline bs with
          | none => none
          | some (v, bs) => some (.header (trim key) (some (trim v)), consumeNewlines bs)
        | none => some (.header (trim key) none, consumeNewlines bs)

def parseClass (bs : Bytes) : Option (Record × Bytes) :=
  match parseUntilNoNewline (· == 32) bs with
  | none => none
  | some (original, bs) =>
    match stripPrefix litArrow bs with
    | none => none
    | some bs =>
      match parseUntilNoNewline (· == 58) bs with
      | none => none
      | some (obfuscated, bs) =>
        match stripPrefix [58] bs with
        | none => none
        | some bs => some (.cls original obfuscated, consumeNewlines bs)

/-- optional `startline:endline:` prefix.  `none` = hard error (start line without a
    well-formed end line); `some (none, bs)` = no prefix. -/
def parseLinePrefix (bs : Bytes) : Option (Option (Nat × Nat) × Bytes) :=
  match parseUsize bs with
  | none => some (none, bs)
  | some (s, bs) =>
    match stripPrefix [58] bs with
    | none => none
    | some bs =>
      match parseUsize bs with
      | none => none
      | some (e, bs) =>
        match stripPrefix [58] bs with
        | none => none
        | some bs => some (some (s, e), bs)

/-- optional `:n` ; `none` = hard error (colon not followed by a number) -/
def parseColonNum (bs : Bytes) : Option (Option Nat × Bytes) :=
  match stripPrefix [58] bs with
  | none => some (none, bs)
  | some bs =>
    match parseUsize bs with
    | none => none
    | some (n, bs) => some (some n, bs)

def mkLineMapping (se : Option (Nat × Nat)) (os oe : Option Nat) : Option LineMapping :=
  match se with
  | some (s, e) => if s > 0 && e > 0 then some ⟨s, e, os, oe⟩ else none
  | none => none

def parseMember (bs : Bytes) : Option (Record × Bytes) :=
  match stripPrefix litIndent bs with
  | none => none
  | some bs =>
  match parseLinePrefix bs with
  | none => none
  | some (se, bs) =>
  match parseUntilNoNewline (· == 32) bs with
  | none => none
  | some (ty, bs) =>
  match stripPrefix [32] bs with
  | none => none
  | some bs =>
  match parseUntilNoNewline (fun c => c == 32 || c == 40) bs with
  | none => none
  | some (original, bs) =>
  match stripPrefix [40] bs with
  | none =>
    -- field
    match stripPrefix litArrow bs with
    | none => none
    | some bs =>
      match parseUntil isNewline bs with
      | none => none
      | some (obfuscated, bs) => some (.field ty original obfuscated, consumeNewlines bs)
  | some bs =>
    match parseUntilNoNewline (· == 41) bs with
    | none => none
    | some (arguments, bs) =>
    match stripPrefix [41] bs with
    | none => none
    | some bs =>
    match parseColonNum bs with
    | none => none
    | some (os, bs) =>
    match (match os with
           | some _ => parseColonNum bs
           | none => some (none, bs)) with
    | none => none
    | some (oe, bs) =>
    match stripPrefix litArrow bs with
    | none => none
    | some bs =>
    match parseUntil isNewline bs with
    | none => none
    | some (obfuscated, bs) =>
      let (name, fc) := splitForeign original
      some (.method ty name obfuscated arguments fc (mkLineMapping se os oe), consumeNewlines bs)

/-- `parse_proguard_record` -/
def parseRecord (bs : Bytes) : Item × Bytes :=
  let bs := consumeNewlines bs
  let result :=
    if startsWith bs [35] then parseHeader bs
    else if startsWith bs litIndent then parseMember bs
    else parseClass bs
  match result with
  | some (r, rest) => (.ok r, rest)
  | none => let (line, rest) := splitLine bs; (.err line, rest)

/-- `ProguardRecordIter`: fuel-driven so that the definition is structural; `records`
    supplies `bs.length` fuel, which `Lemmas/ParserProgress` proves sufficient. -/
def recordsFuel : Nat → Bytes → List Item
  | 0, _ => []
  | n + 1, bs =>
    if bs.isEmpty then []
    else
      let ir := parseRecord bs
      ir.1 :: recordsFuel n ir.2

def records (bs : Bytes) : List Item := recordsFuel bs.length bs

def Item.ok? : Item → Option Record
  | .ok r => some r
  | .err _ => none

def okRecs (items : List Item) : List Record := items.filterMap Item.ok?

/-- `ProguardRecord::try_parse` -/
def tryParse (line : Bytes) : Item :=
  match parseRecord line with
  | (.err l, _) => .err l
  | (.ok r, rest) => if rest.isEmpty then .ok r else .err line

end PG
