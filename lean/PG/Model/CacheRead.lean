/-
  PG.Model.CacheRead — `ProguardCache::parse` (`src/cache/raw.rs`) and the query side of
  `src/cache/mod.rs`, total on arbitrary buffers, with the library code they rely on
  mirrored exactly: `Pod::{ref,slice}_from_prefix` (little-endian `u32`s, length checks),
  `watto::align_to` (the buffer is assumed to start at an 8-aligned address, so alignment
  is a function of the file offset), `StringTable::read` + `leb128::read::unsigned`,
  `core::slice::binary_search_by` (the branch-free algorithm of Rust ≥ 1.82).
-/
import PG.Model.CacheWrite
namespace PG

inductive CacheErr where
  | wrongEndianness
  | wrongFormat
  | wrongVersion
  | invalidHeader
  | invalidClasses
  | invalidMembers
  | unexpectedStringBytes (expected found : Nat)
deriving DecidableEq, Repr, Inhabited

structure Cache where
  numClasses : Nat
  numMembers : Nat
  numBp : Nat
  stringBytesDeclared : Nat
  classes : List RawClass
  members : List RawMember
  byParams : List RawMember
  strings : Bytes
deriving DecidableEq, Repr, Inhabited

/-! ### decoding -/

def rd32 : Bytes → Option (Nat × Bytes)
  | a :: b :: c :: d :: r =>
    some (a.toNat + 256 * b.toNat + 65536 * c.toNat + 16777216 * d.toNat, r)
  | _ => none

def rdFields : Nat → Bytes → Option (List Nat × Bytes)
  | 0, bs => some ([], bs)
  | n + 1, bs =>
    match rd32 bs with
    | none => none
    | some (v, r) =>
      match rdFields n r with
      | none => none
      | some (vs, r') => some (v :: vs, r')

def RawClass.ofFields : List Nat → Option RawClass
  | [a, b, c, d, e, f, g] => some ⟨a, b, c, d, e, f, g⟩
  | _ => none

def RawMember.ofFields : List Nat → Option RawMember
  | [a, b, c, d, e, f, g, h, i] => some ⟨a, b, c, d, e, f, g, h, i⟩
  | _ => none

def rdClasses : Nat → Bytes → Option (List RawClass × Bytes)
  | 0, bs => some ([], bs)
  | n + 1, bs =>
    match rdFields 7 bs with
    | none => none
    | some (fs, r) =>
      match RawClass.ofFields fs, rdClasses n r with
      | some c, some (cs, r') => some (c :: cs, r')
      | _, _ => none

def rdMembers : Nat → Bytes → Option (List RawMember × Bytes)
  | 0, bs => some ([], bs)
  | n + 1, bs =>
    match rdFields 9 bs with
    | none => none
    | some (fs, r) =>
      match RawMember.ofFields fs, rdMembers n r with
      | some m, some (ms, r') => some (m :: ms, r')
      | _, _ => none

/-- `watto::align_to(rest, 8)` at file offset `off`: skip `pad8 off` bytes or fail -/
def alignSkip (off : Nat) (rest : Bytes) : Option Bytes :=
  if rest.length < pad8 off then none else some (rest.drop (pad8 off))

/-- `ProguardCache::parse` -/
def Cache.parse (buf : Bytes) : Except CacheErr Cache :=
  match rdFields 6 buf with
  | some ([magic, version, nc, nm, nb, sb], rest) =>
    if magic == magicFlipped then .error .wrongEndianness
    else if magic != magicPRGC then .error .wrongFormat
    else if version != cacheVersion then .error .wrongVersion
    else
      match alignSkip 24 rest with
      | none => .error .invalidClasses
      | some rest =>
      if rest.length < 28 * nc then .error .invalidClasses else
      match rdClasses nc rest with
      | none => .error .invalidClasses
      | some (classes, rest) =>
      let off := 24 + 28 * nc
      match alignSkip off rest with
      | none => .error .invalidMembers
      | some rest =>
      let off := off + pad8 off
      if rest.length < 36 * nm then .error .invalidMembers else
      match rdMembers nm rest with
      | none => .error .invalidMembers
      | some (members, rest) =>
      let off := off + 36 * nm
      match alignSkip off rest with
      | none => .error .invalidMembers
      | some rest =>
      let off := off + pad8 off
      if rest.length < 36 * nb then .error .invalidMembers else
      match rdMembers nb rest with
      | none => .error .invalidMembers
      | some (byParams, rest) =>
      let off := off + 36 * nb
      match alignSkip off rest with
      | none => .error (.unexpectedStringBytes sb 0)
      | some strings =>
      if strings.length < sb then .error (.unexpectedStringBytes sb strings.length)
      else .ok ⟨nc, nm, nb, sb, classes, members, byParams, strings⟩
  | _ => .error .invalidHeader

/-- `ProguardCache::parse` of a buffer whose first byte lies at an address ≡ `a` (mod 8) — what
    a reader sees when the file sits inside a larger buffer.  `Header::ref_from_prefix` wants a
    4-aligned address (else `InvalidHeader`); `watto::align_to(rest, 8)` pads relative to the
    *address*, not to the file offset, so at `a ≡ 4` every section is looked for 4 bytes later.
    `Cache.parse = Cache.parseAt 0` (`parseAt_zero`). -/
def Cache.parseAt (a : Nat) (buf : Bytes) : Except CacheErr Cache :=
  if a % 4 != 0 then .error .invalidHeader else
  match rdFields 6 buf with
  | some ([magic, version, nc, nm, nb, sb], rest) =>
    if magic == magicFlipped then .error .wrongEndianness
    else if magic != magicPRGC then .error .wrongFormat
    else if version != cacheVersion then .error .wrongVersion
    else
      match alignSkip (a + 24) rest with
      | none => .error .invalidClasses
      | some rest =>
      if rest.length < 28 * nc then .error .invalidClasses else
      match rdClasses nc rest with
      | none => .error .invalidClasses
      | some (classes, rest) =>
      let off := a + 24 + pad8 (a + 24) + 28 * nc
      match alignSkip off rest with
      | none => .error .invalidMembers
      | some rest =>
      let off := off + pad8 off
      if rest.length < 36 * nm then .error .invalidMembers else
      match rdMembers nm rest with
      | none => .error .invalidMembers
      | some (members, rest) =>
      let off := off + 36 * nm
      match alignSkip off rest with
      | none => .error .invalidMembers
      | some rest =>
      let off := off + pad8 off
      if rest.length < 36 * nb then .error .invalidMembers else
      match rdMembers nb rest with
      | none => .error .invalidMembers
      | some (byParams, rest) =>
      let off := off + 36 * nb
      match alignSkip off rest with
      | none => .error (.unexpectedStringBytes sb 0)
      | some strings =>
      if strings.length < sb then .error (.unexpectedStringBytes sb strings.length)
      else .ok ⟨nc, nm, nb, sb, classes, members, byParams, strings⟩
  | _ => .error .invalidHeader

/-! ### strings -/

/-- `leb128::read::unsigned` (the value is reduced mod 2^64, as `u64 |= low << shift` does) -/
def lebRead (shift result : Nat) : Bytes → Option (Nat × Bytes)
  | [] => none
  | b :: r =>
    if shift == 63 && b != 0 && b != 1 then none
    else
      let result := (result ||| ((b.toNat % 128) <<< shift)) % usizeBound
      if b.toNat / 128 == 0 then some (result, r)
      else lebRead (shift + 7) result r

/-- `StringTable::read(string_bytes, offset)` with the error kind forgotten -/
def readString (sb : Bytes) (off : Nat) : Option Bytes :=
  if off > sb.length then none
  else match lebRead 0 0 (sb.drop off) with
    | none => none
    | some (len, r) =>
      if len > r.length then none
      else if validUtf8 (r.take len) then some (r.take len) else none

/-! ### binary search -/

/-- the loop of `binary_search_by`; `fuel = size` suffices -/
def bsLoop (f : Nat → Ordering) : Nat → Nat → Nat → Nat
  | 0, _, base => base
  | fuel + 1, size, base =>
    if size > 1 then
      let half := size / 2
      let mid := base + half
      bsLoop f fuel (size - half) (if f mid == .gt then base else mid)
    else base

/-- `slice.binary_search_by(f)` with `f` given on indices: `ok i` / `error insertionPoint` -/
def binarySearch (n : Nat) (f : Nat → Ordering) : Except Nat Nat :=
  if n = 0 then .error 0
  else
    let base := bsLoop f n n 0
    match f base with
    | .eq => .ok base
    | .lt => .error (base + 1)
    | .gt => .error base

def searchList {α : Type} (l : List α) (cmp : α → Ordering) : Option Nat :=
  match binarySearch l.length (fun i => match l[i]? with
                                         | some x => cmp x
                                         | none => .gt) with
  | .ok i => some i
  | .error _ => none

/-- `find_range_by_binary_search` -/
def findRange {α : Type} (l : List α) (cmp : α → Ordering) : Option (List α) :=
  match searchList l cmp with
  | none => none
  | some mid =>
    let isEq := fun x => cmp x == .eq
    let start := mid - ((l.take mid).reverse.takeWhile isEq).length
    let stop := mid + ((l.drop mid).takeWhile isEq).length
    some ((l.drop start).take (stop - start))

/-! ### queries -/

namespace Cache

def str (c : Cache) (off : Nat) : Option Bytes := readString c.strings off

def cmpName (c : Cache) (off : Nat) (name : Bytes) : Ordering :=
  match c.str off with
  | none => .gt
  | some s => cmpBytes s name

def getClass (c : Cache) (name : Bytes) : Option RawClass :=
  match searchList c.classes (fun k => c.cmpName k.obfOff name) with
  | none => none
  | some i => c.classes[i]?

/-- `members.get(start..start+len)` -/
def sliceOf {α : Type} (l : List α) (start len : Nat) : Option (List α) :=
  if start + len > l.length then none else some ((l.drop start).take len)

def classMembers (c : Cache) (k : RawClass) : Option (List RawMember) :=
  sliceOf c.members k.membersOff k.membersLen

def classByParams (c : Cache) (k : RawClass) : Option (List RawMember) :=
  sliceOf c.byParams k.bpOff k.bpLen

def remapClass (c : Cache) (name : Bytes) : Option Bytes :=
  match c.getClass name with
  | none => none
  | some k => c.str k.origOff

def remapMethod (c : Cache) (cls meth : Bytes) : Option (Bytes × Bytes) :=
  match c.getClass cls with
  | none => none
  | some k =>
    match c.classMembers k with
    | none => none
    | some ms =>
      match findRange ms (fun m => c.cmpName m.obfOff meth) with
      | none => none
      | some [] => none
      | some (first :: rest) =>
        if rest.all (fun m => m.origNameOff == first.origNameOff) then
          match c.str k.origOff, c.str first.origNameOff with
          | some oc, some om => some (oc, om)
          | _, _ => none
        else none

/-- one step of the cache's `iterate_with_lines`; `none` = skipped (`continue`) -/
def lineFrame (c : Cache) (frame : Frame) (m : RawMember) : Option Frame :=
  if m.endline > 0 && (frame.line < m.startline || frame.line > m.endline) then none
  else
    let line :=
      if m.origEndline == u32Max || m.origEndline == m.origStartline then m.origStartline
      else satAdd m.origStartline frame.line - m.startline
    let cls := (c.str m.origClassOff).getD frame.cls
    let file : Option (Option Bytes) :=
      if m.origFileOff != u32Max then
        match c.str m.origFileOff with
        | none => none
        | some fname =>
          if fname == litSynthetic then some (some (extractClassName cls)) else some (some fname)
      else if m.origClassOff != u32Max then some none
      else some frame.file
    match file, c.str m.origNameOff with
    | some file, some method =>
      some { cls := cls, method := method, line := line, file := file, params := frame.params }
    | _, _ => none

/-- the cache's `iterate_without_lines`, collected: stops at the first unreadable name -/
def paramFrames (c : Cache) (frame : Frame) : List RawMember → List Frame
  | [] => []
  | m :: ms =>
    match c.str m.origNameOff with
    | none => []
    | some method =>
      { cls := (c.str m.origClassOff).getD frame.cls, method := method, line := 0, file := none,
        params := frame.params } :: paramFrames c frame ms

def cmpNameParams (c : Cache) (m : RawMember) (name params : Bytes) : Ordering :=
  match c.str m.obfOff with
  | none => .gt
  | some n => cmpPair (n, (c.str m.paramsOff).getD []) (name, params)

def remapFrame (c : Cache) (frame : Frame) : List Frame :=
  match c.getClass frame.cls with
  | none => []
  | some k =>
    match c.str k.origOff with
    | none => []
    | some orig =>
      let frame' := { frame with cls := orig }
      match frame.params with
      | some p =>
        match c.classByParams k with
        | none => []
        | some ms =>
          match findRange ms (fun m => c.cmpNameParams m frame.method p) with
          | none => []
          | some r => c.paramFrames frame' r
      | none =>
        match c.classMembers k with
        | none => []
        | some ms =>
          match findRange ms (fun m => c.cmpName m.obfOff frame.method) with
          | none => []
          | some r => r.filterMap (c.lineFrame frame')

/-- `ProguardCache::test()` with its assertions as a Boolean -/
def selfTestGo (c : Cache) : Nat → List RawClass → Bool
  | _, [] => true
  | prevEnd, k :: ks =>
    (c.str k.obfOff).isSome && (c.str k.origOff).isSome &&
    (k.fileOff == u32Max || (c.str k.fileOff).isSome) &&
    k.membersOff == prevEnd &&
    (prevEnd + k.membersLen) % u32Bound ≤ c.members.length &&
    (match c.classMembers k with
     | none => true
     | some ms => ms.all (fun m =>
         (c.str m.obfOff).isSome && (c.str m.origNameOff).isSome &&
         (m.paramsOff == u32Max || (c.str m.paramsOff).isSome) &&
         (m.origClassOff == u32Max || (c.str m.origClassOff).isSome) &&
         (m.origFileOff == u32Max || (c.str m.origFileOff).isSome))) &&
    selfTestGo c ((prevEnd + k.membersLen) % u32Bound) ks

def selfTest (c : Cache) : Bool := selfTestGo c 0 c.classes

end Cache
end PG
