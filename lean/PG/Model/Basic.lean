/-
  PG.Model.Basic — byte-level primitives shared by every part of the model.

  Text is bytes (`List UInt8`).  Everything here is total, computable and (with the
  exception of nothing) structurally recursive, so that it reduces in the kernel and
  compiles into the `pgmodel` driver.  No imports.
-/
namespace PG

abbrev Bytes := List UInt8

/-- ASCII string literal to bytes (only used with ASCII literals). -/
def ascii (s : String) : Bytes := s.toUTF8.toList

/-! ## delimiters -/

/-- `mapping.rs: is_newline` -/
def isNewline (b : UInt8) : Bool := b == 13 || b == 10

/-- `bytes.strip_prefix(prefix)` -/
def stripPrefix : Bytes → Bytes → Option Bytes
  | [], bs => some bs
  | _ :: _, [] => none
  | p :: ps, b :: bs => if p == b then stripPrefix ps bs else none

def startsWith (bs p : Bytes) : Bool := (stripPrefix p bs).isSome

/-- longest prefix on which `p` is false, and the rest (which is empty or starts with a
    byte satisfying `p`): `bytes.iter().position(p)` + `split_at`. -/
def spanUntil (p : UInt8 → Bool) (bs : Bytes) : Bytes × Bytes :=
  (bs.takeWhile (fun b => !p b), bs.dropWhile (fun b => !p b))

/-! ## UTF-8 (what `core::str::from_utf8` accepts: Unicode Table 3-7) -/

def isCont (b : UInt8) : Bool := 0x80 ≤ b && b ≤ 0xBF

def validUtf8 : Bytes → Bool
  | [] => true
  | b0 :: rest =>
    if b0 < 0x80 then validUtf8 rest
    else if 0xC2 ≤ b0 && b0 ≤ 0xDF then
      match rest with
      | b1 :: r => isCont b1 && validUtf8 r
      | _ => false
    else if 0xE0 ≤ b0 && b0 ≤ 0xEF then
      match rest with
      | b1 :: b2 :: r =>
        (if b0 == 0xE0 then 0xA0 ≤ b1 && b1 ≤ 0xBF
         else if b0 == 0xED then 0x80 ≤ b1 && b1 ≤ 0x9F
         else isCont b1) && isCont b2 && validUtf8 r
      | _ => false
    else if 0xF0 ≤ b0 && b0 ≤ 0xF4 then
      match rest with
      | b1 :: b2 :: b3 :: r =>
        (if b0 == 0xF0 then 0x90 ≤ b1 && b1 ≤ 0xBF
         else if b0 == 0xF4 then 0x80 ≤ b1 && b1 ≤ 0x8F
         else isCont b1) && isCont b2 && isCont b3 && validUtf8 r
      | _ => false
    else false

/-! ## numbers -/

def isDigit (b : UInt8) : Bool := 48 ≤ b && b ≤ 57

/-- `(b as char).is_numeric()` for a byte read as a Latin-1 code point:
    `0-9`, `² ³ ¹`, `¼ ½ ¾`. -/
def isNumericByte (b : UInt8) : Bool :=
  isDigit b || b == 0xB2 || b == 0xB3 || b == 0xB9 || b == 0xBC || b == 0xBD || b == 0xBE

def digitsToNat (ds : Bytes) : Nat :=
  ds.foldl (fun acc d => acc * 10 + (d.toNat - 48)) 0

def usizeBound : Nat := 18446744073709551616   -- 2^64
def u32Bound : Nat := 4294967296               -- 2^32
def u32Max : Nat := 4294967295
def usizeMax : Nat := 18446744073709551615

/-- `str::parse::<uN>()` on a whole string: optional `+`, at least one ASCII digit, only
    digits, value below `bound`. -/
def parseUnsignedStr (bound : Nat) (s : Bytes) : Option Nat :=
  let ds := match s with
    | 43 :: r => r
    | _ => s
  if ds.isEmpty then none
  else if ds.all isDigit then
    let v := digitsToNat ds
    if v < bound then some v else none
  else none

/-- `mapping.rs: parse_usize` — longest run of "numeric" bytes, then `from_utf8` +
    `parse::<usize>()`.  A non-ASCII numeric byte in the run is a lone continuation byte,
    hence invalid UTF-8; `+` is not numeric, so it never reaches `parse`. -/
def parseUsize (bs : Bytes) : Option (Nat × Bytes) :=
  let ds := bs.takeWhile isNumericByte
  let rest := bs.dropWhile isNumericByte
  if ds.isEmpty then none
  else if ds.all isDigit then
    let v := digitsToNat ds
    if v < usizeBound then some (v, rest) else none
  else none

/-- decimal digits of a number, least significant first, with fuel -/
def natDigitsRev : Nat → Nat → Bytes
  | 0, _ => []
  | fuel + 1, n => UInt8.ofNat (48 + n % 10) :: (if n / 10 = 0 then [] else natDigitsRev fuel (n / 10))

/-- `Display for usize` -/
def natToDec (n : Nat) : Bytes := (natDigitsRev (n + 1) n).reverse

/-! ## `str::trim` (Unicode `White_Space`, on UTF-8 bytes) -/

/-- if `bs` starts with the UTF-8 encoding of a `White_Space` code point, the rest -/
def stripWs : Bytes → Option Bytes
  | 0xC2 :: 0x85 :: r => some r
  | 0xC2 :: 0xA0 :: r => some r
  | 0xE1 :: 0x9A :: 0x80 :: r => some r
  | 0xE2 :: 0x80 :: b :: r =>
    if (0x80 ≤ b && b ≤ 0x8A) || b == 0xA8 || b == 0xA9 || b == 0xAF then some r else none
  | 0xE2 :: 0x81 :: 0x9F :: r => some r
  | 0xE3 :: 0x80 :: 0x80 :: r => some r
  | b :: r => if (9 ≤ b && b ≤ 13) || b == 32 then some r else none
  | [] => none

/-- same on the reversed string (last byte first) -/
def stripWsRev : Bytes → Option Bytes
  | 0x85 :: 0xC2 :: r => some r
  | 0xA0 :: 0xC2 :: r => some r
  | 0x80 :: 0x9A :: 0xE1 :: r => some r
  | 0x9F :: 0x81 :: 0xE2 :: r => some r
  | 0x80 :: 0x80 :: 0xE3 :: r => some r
  | b :: 0x80 :: 0xE2 :: r =>
    if (0x80 ≤ b && b ≤ 0x8A) || b == 0xA8 || b == 0xA9 || b == 0xAF then some r
    else if (9 ≤ b && b ≤ 13) || b == 32 then some (0x80 :: 0xE2 :: r) else none
  | b :: r => if (9 ≤ b && b ≤ 13) || b == 32 then some r else none
  | [] => none

def trimStartFuel : Nat → Bytes → Bytes
  | 0, bs => bs
  | n + 1, bs => match stripWs bs with
    | some r => trimStartFuel n r
    | none => bs

def trimEndRevFuel : Nat → Bytes → Bytes
  | 0, bs => bs
  | n + 1, bs => match stripWsRev bs with
    | some r => trimEndRevFuel n r
    | none => bs

def trimStart (bs : Bytes) : Bytes := trimStartFuel bs.length bs
def trimEnd (bs : Bytes) : Bytes := (trimEndRevFuel bs.length bs.reverse).reverse
/-- `str::trim` -/
def trim (bs : Bytes) : Bytes := trimEnd (trimStart bs)

/-! ## `str::lines` (Rust 1.95: split after `\n`, strip one `\r` directly before it) -/

def strLines : Bytes → List Bytes
  | [] => []
  | 10 :: bs => [] :: strLines bs
  | 13 :: 10 :: bs => [] :: strLines bs
  | b :: bs =>
    match strLines bs with
    | [] => [[b]]
    | l :: ls => (b :: l) :: ls

/-! ## splitting helpers (`split_once`, `rsplit_once`, `splitn(2, ": ")`) -/

/-- `s.split_once(c)` for an ASCII byte `c` -/
def splitOnce (c : UInt8) (s : Bytes) : Option (Bytes × Bytes) :=
  match s.dropWhile (· != c) with
  | [] => none
  | _ :: r => some (s.takeWhile (· != c), r)

/-- `s.rsplit_once(c)` for an ASCII byte `c` -/
def rsplitOnce (c : UInt8) (s : Bytes) : Option (Bytes × Bytes) :=
  match splitOnce c s.reverse with
  | none => none
  | some (a, b) => some (b.reverse, a.reverse)

/-- first occurrence of the two-byte pattern `": "`: (before, after) -/
def splitColonSpace : Bytes → Option (Bytes × Bytes)
  | [] => none
  | 58 :: 32 :: r => some ([], r)
  | b :: r => match splitColonSpace r with
    | none => none
    | some (a, c) => some (b :: a, c)

/-! ## byte-lexicographic order (`str::cmp`) -/

def cmpBytes : Bytes → Bytes → Ordering
  | [], [] => .eq
  | [], _ :: _ => .lt
  | _ :: _, [] => .gt
  | a :: as, b :: bs => if a < b then .lt else if b < a then .gt else cmpBytes as bs

def cmpPair (a b : Bytes × Bytes) : Ordering :=
  match cmpBytes a.1 b.1 with
  | .eq => cmpBytes a.2 b.2
  | o => o

/-! ## hexadecimal (driver protocol only) -/

def hexDigit (n : Nat) : Char :=
  if n < 10 then Char.ofNat (48 + n) else Char.ofNat (87 + n)

def hexVal (c : Char) : Option Nat :=
  if '0' ≤ c && c ≤ '9' then some (c.toNat - 48)
  else if 'a' ≤ c && c ≤ 'f' then some (c.toNat - 87)
  else none

end PG
