/-
  PG.Model.Meta — `ProguardMapping::{has_line_info, is_valid, summary}` (`src/mapping.rs`).
-/
import PG.Model.Parser
namespace PG

def litCompiler : Bytes := [99, 111, 109, 112, 105, 108, 101, 114]
def litCompilerVersion : Bytes :=
  [99, 111, 109, 112, 105, 108, 101, 114, 95, 118, 101, 114, 115, 105, 111, 110]
def litMinApi : Bytes := [109, 105, 110, 95, 97, 112, 105]
#guard litCompiler == ascii "compiler"
#guard litCompilerVersion == ascii "compiler_version"
#guard litMinApi == ascii "min_api"

def Item.isLineMethod : Item → Bool
  | .ok (.method _ _ _ _ _ (some _)) => true
  | _ => false

def Item.isClass : Item → Bool
  | .ok (.cls ..) => true
  | _ => false

def Item.isMethod : Item → Bool
  | .ok (.method ..) => true
  | _ => false

def Item.isMember : Item → Bool
  | .ok (.method ..) => true
  | .ok (.field ..) => true
  | _ => false

/-- `has_line_info` -/
def hasLineInfo (bs : Bytes) : Bool := (records bs).any Item.isLineMethod

/-- the loop of `is_valid` over the first 50 items -/
def isValidGo (hasClass : Bool) : List Item → Bool
  | [] => false
  | it :: rest =>
    if it.isClass then isValidGo true rest
    else if it.isMember && hasClass then true
    else isValidGo hasClass rest

def isValid (bs : Bytes) : Bool := isValidGo false ((records bs).take 50)

structure Summary where
  compiler : Option Bytes
  compilerVersion : Option Bytes
  minApi : Option Nat
  classCount : Nat
  methodCount : Nat
deriving DecidableEq, Repr, Inhabited

def summaryStep (s : Summary) : Item → Summary
  | .ok (.header key value) =>
    if key == litCompiler then { s with compiler := value }
    else if key == litCompilerVersion then { s with compilerVersion := value }
    else if key == litMinApi then { s with minApi := value.bind (parseUnsignedStr u32Bound) }
    else s
  | .ok (.cls ..) => { s with classCount := s.classCount + 1 }
  | .ok (.method ..) => { s with methodCount := s.methodCount + 1 }
  | _ => s

def summary (bs : Bytes) : Summary := (records bs).foldl summaryStep ⟨none, none, none, 0, 0⟩

/-- `ProguardMapping::section(a..b)`: the sub-mapping is the mapping of the byte range (the
    Rust method panics unless `a ≤ b ≤ len`; callers establish that). -/
def sectionOf (bs : Bytes) (a b : Nat) : Bytes := (bs.drop a).take (b - a)

end PG
