import PG.Props.C06
#print axioms PG.C06_progress
#print axioms PG.C06_rest_suffix
#print axioms PG.C06_unfold
#print axioms PG.C06_nil
#print axioms PG.C06_count
#print axioms PG.C06_fields_no_terminator
#print axioms PG.C06_resync
#print axioms PG.C06_empty_err_last
