import PG.Props.C07
#print axioms PG.C07_linewise
#print axioms PG.C07_render_cases
#print axioms PG.C07_frame_count
#print axioms PG.C07_identity
#print axioms PG.C07_mapper_unknown
#print axioms PG.C07_lines_no_newline
