import PG.Props.C02b
#print axioms PG.C02_parses
#print axioms PG.C02_class
#print axioms PG.C02_method
#print axioms PG.C02_frame_line
#print axioms PG.C02_frame_params
#print axioms PG.C02_frame
#print axioms PG.C02_throwable
#print axioms PG.C02_text
#print axioms PG.C02_typed
#print axioms PG.C02_signature
#print axioms PG.C02_pm_indep
#print axioms PG.records_valid_utf8
#print axioms PG.reprR_of_records
#print axioms PG.small_of_length
#print axioms PG.C02_bytes
