import PG.Props.C16
#print axioms PG.C16_valid
#print axioms PG.C16_format
#print axioms PG.C16_none_no_open
#print axioms PG.C16_none_no_close
#print axioms PG.C16_none_no_return
#print axioms PG.C16_none_unterminated
#print axioms PG.C16_agree
#print axioms PG.C16_base_table_fin
#print axioms PG.C16_base_table
