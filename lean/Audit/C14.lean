import PG.Props.C14
#print axioms PG.C14_length
#print axioms PG.C14_header
#print axioms PG.C14_function
#print axioms PG.C14_hash_ops_order_free
#print axioms PG.C14_membership_order_indep
#print axioms PG.C14_lookup_order_indep
