import PG.Props.C14
#print axioms PG.C14_length
#print axioms PG.C14_header
#print axioms PG.C14_function
