import PG.Props.C15
#print axioms PG.C15_success
#print axioms PG.C15_prefix
#print axioms PG.C15_propagates
#print axioms PG.C15_logFail_same
#print axioms PG.C15_chunking
#print axioms PG.writeChunksTo_ok
#print axioms PG.writeChunksTo_prefix
