import PG.Props.C05
#print axioms PG.C05_line
#print axioms PG.C05_try
#print axioms PG.C05_file
#print axioms PG.C05_file_no_final_newline
#print axioms PG.C05_err_unspaced_arrow
#print axioms PG.C05_err_missing_arrow
#print axioms PG.C05_err_missing_colon
#print axioms PG.C05_err_start_without_end
#print axioms PG.C05_err_missing_type
#print axioms PG.C05_err_indent
