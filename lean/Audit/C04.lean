import PG.Props.C04
#print axioms PG.C04_class
#print axioms PG.C04_method
#print axioms PG.C04_method_frames
#print axioms PG.C04_cache_class
#print axioms PG.C04_cache_method
#print axioms PG.C04_file
