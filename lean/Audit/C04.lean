import PG.Props.C04
#print axioms PG.C04_class
#print axioms PG.C04_method
#print axioms PG.C04_method_frames
