import PG.Props.C08
#print axioms PG.C08_depth
#print axioms PG.C08_exception
#print axioms PG.C08_frames
#print axioms PG.C08_agrees
