import PG.Props.C01
#print axioms PG.C01_mapper
#print axioms PG.C01_unknown_class
#print axioms PG.C01_unknown_method
#print axioms PG.C01_pm_indep
#print axioms PG.C01_offset_exact
#print axioms PG.C01_block_local
#print axioms PG.C01_cache
#print axioms PG.C01_file
#print axioms PG.C01_terminator_indep
#print axioms PG.okRecs_resync
#print axioms PG.okRecs_noise
#print axioms PG.okRecs_printed
