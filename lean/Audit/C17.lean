import PG.Props.C17
#print axioms PG.C17_frame
#print axioms PG.C17_frame_indented
#print axioms PG.C17_throwable
#print axioms PG.C17_trace
#print axioms PG.C17_reprint
#print axioms PG.stripWs_encode
#print axioms PG.trim_encodeAll
