import PG.Props.C12
#print axioms PG.C12_bsearch_in_range
#print axioms PG.C12_bsLoop_lt
#print axioms PG.C12_search_in_range
#print axioms PG.C12_findRange_slice
#print axioms PG.C12_class_slices
#print axioms PG.C12_leb_bounded
#print axioms PG.C12_readString_slice
#print axioms PG.C12_strings_suffix
#print axioms PG.C12_fields_u32
#print axioms PG.C12_line_bounded
#print axioms PG.C12_class_slice
#print axioms PG.C12_method_slice
#print axioms PG.C12_frame_slices
#print axioms PG.C12_unaligned
