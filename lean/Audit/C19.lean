import PG.Props.C19
#print axioms PG.C19_line_info
#print axioms PG.C19_counts
#print axioms PG.C19_last_header
#print axioms PG.C19_valid
