import PG.Props.C03
#print axioms PG.C03_mapper
#print axioms PG.C03_pm_false
#print axioms PG.C03_line_file
#print axioms PG.C03_no_inlined
#print axioms PG.C03_nodup
#print axioms PG.C03_class_local
#print axioms PG.C03_cache
#print axioms PG.C03_file
