import PG.Props.C11
#print axioms PG.C11_prefix
#print axioms PG.C11_kinds
#print axioms PG.C11_magic
#print axioms PG.C11_unaligned
#print axioms PG.C11_parseAt_zero
