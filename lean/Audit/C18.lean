import PG.Props.C18
#print axioms PG.C18_definition
#print axioms PG.C18_pad
#print axioms PG.C18_sha1_length
#print axioms PG.C18_version_variant
#print axioms PG.C18_namespace
#print axioms PG.C18_empty
#print axioms PG.C18_sha1_vectors
#print axioms PG.C18_source
