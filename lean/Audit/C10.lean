import PG.Props.C10
#print axioms PG.layout_frozen
#print axioms PG.layout_model_arity
#print axioms PG.C10_reader_compat
#print axioms PG.C10_no_fault
#print axioms PG.C10_version_gate
