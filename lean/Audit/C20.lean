import PG.Props.C20
#print axioms PG.C20_order_indep
#print axioms PG.C20_frames_order_indep
#print axioms PG.C20_hash_ops_order_free
