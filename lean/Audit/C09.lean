import PG.Props.C09
#print axioms PG.C09_wf
#print axioms PG.C09_check
#print axioms PG.C09_selftest
