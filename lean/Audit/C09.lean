import PG.Props.C09
#print axioms PG.C09_wf
#print axioms PG.C09_check
#print axioms PG.C09_selftest
#print axioms PG.C09_display_total
