import PG.Props.C13
#print axioms PG.C13_write_parse_ok
#print axioms PG.C13_bytes_pipeline
#print axioms PG.C13_counters
#print axioms PG.C13_line_bounded
#print axioms PG.C13_frame_slice
