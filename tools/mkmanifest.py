#!/usr/bin/env python3
"""Single source for props.json (read by ./check) and MANIFEST.json.  Run after editing."""
import json
import os

ROOT = os.path.dirname(os.path.dirname(os.path.abspath(__file__)))

COMMON_ASSUME = [
    "Lean 4.33 kernel; axioms limited to propext, Classical.choice, Quot.sound (checked by #print axioms on every run)",
    "the hand-written Lean model corresponds to /repo's code: checked on every run by the differential harness on generated inputs, not proved",
    "rustc/std (HashMap, BTreeMap order = byte order, binary_search_by, str::{lines,trim,parse}, from_utf8, write_all), watto 0.1.0, leb128 0.2.5 are mirrored in the model, not verified",
    "64-bit usize, little endian, cache buffers 8-byte aligned",
    "static ties regenerated from /repo's source on every run by regex readers in ./check (cache record layout, operations on hash containers, body of uuid(), audit of stateful / hashing constructs against audit_baseline.json)",
]

# id -> spec.  `theorems` are the proof obligations (fully qualified Lean names) in lean/PG/Props/<id>.lean.
P = {}


def prop(pid, level, technique, text, note, theorems=(), oracle=False, rule=None, explanation="", extra_assume=(), **kw):
    P[pid] = dict(level=level, technique=technique, text=text, note=note, theorems=list(theorems), oracle=oracle,
                  rule=rule, explanation=explanation, assumptions=COMMON_ASSUME + list(extra_assume), **kw)


TV = "translation_validation"

prop("C01", "proof", "Lean 4 theorems: mapper == record-level retrace specification (all record lists, all frames), cache == mapper (C02), bytes -> records (C05) + differential correspondence",
     "Executable Lean model of parser, mapper and cache answers frame-by-line queries; every run compares it with the real crate on generated mappings x the query universe, and a metamorphic oracle checks independence from terminators, noise lines and block order.",
     "Model hand-written; tie is differential. Mapper side proved (record-level specification PG/Spec/Retrace.lean: last block with that name, entries in file order whose range contains the line, ProGuard line rule, sourceFile/synthetic/foreign-class file rule; unknown class/method => []; independent of parameter index and of other blocks); bytes -> records is C05; the cache side is C02.",
     theorems=["PG.C01_mapper", "PG.C01_unknown_class", "PG.C01_unknown_method", "PG.C01_pm_indep", "PG.C01_offset_exact", "PG.C01_block_local", "PG.C01_cache", "PG.C01_file", "PG.C01_terminator_indep", "PG.okRecs_resync", "PG.okRecs_noise", "PG.okRecs_printed"], oracle=True)
prop("C02", "proof", "Lean 4 refinement proof (cache writer + reader == mapper == record-level specification) + differential correspondence",
     "Kernel-checked, for every record list in the representable domain (ReprR: names non-empty, line numbers < 2^32-1, strings valid UTF-8) whose tables fit the format's u32 counters (Small): the written bytes parse back to the written tables (serialisation round trip: little-endian u32s, 0-or-4-byte padding, header counts, LEB128-prefixed deduplicated string table); the tables represent the record stream (classes strictly sorted by name with last-block-wins, members grouped and sorted by obfuscated name in file order, by-params entries sorted by (name, args) after inline filtering and de-duplication, every offset resolving in the final string table, offsets identifying names); Rust's branch-free binary_search_by + linear range expansion on such tables return exactly the matching entries; hence class lookup, method lookup, frame remapping by line and by parameter list, throwable, text and typed stack-trace remapping and signature deobfuscation of the parsed cache equal those of the mapper (which equal the record-level specification, C01/C03/C04), for all query strings and line numbers; line-based mapper answers do not depend on the parameter index. The model is tied to the crate on every query kind over grammar, token-mutated, out-of-domain and corpus mappings, plus the direct oracle mapper == cache on the implementation's own answers.",
     "At the level of mapping bytes (C02_bytes) the only hypotheses are the genuine domain conditions (names non-empty, line numbers < 2^32-1) and a file size below 16 MiB (a non-tight bound under which the u32 counters provably cannot overflow): validity of UTF-8 of everything the parser yields and the size of the tables are proved.",
     theorems=["PG.C02_parses", "PG.C02_class", "PG.C02_method", "PG.C02_frame_line", "PG.C02_frame_params", "PG.C02_frame", "PG.C02_throwable", "PG.C02_text", "PG.C02_typed", "PG.C02_signature", "PG.C02_pm_indep", "PG.records_valid_utf8", "PG.reprR_of_records", "PG.small_of_length", "PG.C02_bytes"], oracle=True, module="PG.Props.C02b")
prop("C03", "proof", "Lean 4 theorems: parameter-based retrace of mapper == specification (all record lists), cache == mapper (C02) + differential correspondence",
     "Parameter-based retrace of model vs crate on multi-class mappings with inline groups and repeated entries; oracle: mapper(pm) == cache, no duplicate methods, line 0 / no file.",
     "Model hand-written; tie is differential. Mapper side proved against PG/Spec/Retrace.lean (non-inlined entries, first occurrence per (obf,args,name), file order, line 0, no file, no duplicates, block-local); the cache side is C02.",
     theorems=["PG.C03_mapper", "PG.C03_pm_false", "PG.C03_line_file", "PG.C03_no_inlined", "PG.C03_nodup", "PG.C03_class_local", "PG.C03_cache", "PG.C03_file"], oracle=True)
prop("C04", "proof", "Lean 4 theorems: class/method lookup of mapper == specification, cache == mapper (C02) + differential correspondence",
     "Class and method lookup of model vs crate on adversarially similar names and sort-order neighbours; oracle: method answer implies every line-based frame carries it.",
     "Model hand-written; tie is differential. Mapper side proved against PG/Spec/Retrace.lean (class lookup = last class line with that name; method lookup answers iff all entries agree; then every line-based frame carries that name); the cache side is C02.",
     theorems=["PG.C04_class", "PG.C04_method", "PG.C04_method_frames", "PG.C04_cache_class", "PG.C04_cache_method", "PG.C04_file"])
prop("C05", "proof", "Lean 4 round-trip theorems over the line grammar AST + differential correspondence",
     "Kernel-checked theorems over the documented line grammar (PG/Spec/Grammar.lean: an AST of class, field, method, key/value header, key header and R8 sourceFile header lines with printer and denoted record, written from the format description only): every well-formed line, followed by any terminator(s) and any further input or by the end of input, parses to exactly the record it denotes (names, types, argument string, foreign class split at the last dot, line mapping present iff both obfuscated numbers are positive, original start/end present iff printed); try_parse agrees; a file of such lines with any mix of CR/LF terminators (last one optional) yields exactly their records. Malformed families, each quantified over all well-formed components, yield an error item carrying the offending line: unspaced arrow, missing arrow, missing class colon, start line without end line, missing return type, indentation of 0-3 spaces. The parser model is tied to the crate on printed ASTs, malformed variants, every corpus line and all lines of <= 4 (quick) / 6 (thorough) tokens over a 12-token alphabet.",
     "Hypotheses the proofs force beyond the property text (all in Line.WF): a type may not start with a digit unless a start:end: prefix is printed; numbers < 2^64; header keys/values without surrounding Unicode whitespace; method names without '.'.",
     theorems=["PG.C05_line", "PG.C05_try", "PG.C05_file", "PG.C05_file_no_final_newline", "PG.C05_err_unspaced_arrow", "PG.C05_err_missing_arrow", "PG.C05_err_missing_colon", "PG.C05_err_start_without_end", "PG.C05_err_missing_type", "PG.C05_err_indent"])
prop("C06", "proof", "Lean 4 theorems over all byte strings (termination, count, no terminators, line-local resynchronisation) + differential correspondence",
     "Kernel-checked theorems for every byte string: each iteration of the record iterator consumes at least one byte and leaves a suffix (so the fuel-driven definition is the Rust iterator and terminates); at most one item per input byte; no yielded name, type, argument string or header value contains a line terminator; and records(A ++ newline ++ B) = records(A) ++ records(B) for every A, B and either terminator byte, up to the unavoidable normalisation (an error line carries or lacks its terminator byte; the empty-line error that trailing terminators produce at end of input) — a truncated, binary or malformed line can only turn itself into an error. Error items with an empty line occur only last. The parser model is tied to the crate on byte soups, token soups, invalid UTF-8, huge digit runs, unterminated sourceFile headers and corpus files; the same resynchronisation law is checked on the implementation directly (bounded-exhaustive over a 9-symbol alphabet, random splits, every line split of the corpus), under catch_unwind.",
     "No-panic is: the model is total + every protocol operation on the crate runs under catch_unwind with overflow checks on.",
     theorems=["PG.C06_progress", "PG.C06_rest_suffix", "PG.C06_unfold", "PG.C06_nil", "PG.C06_count", "PG.C06_fields_no_terminator", "PG.C06_resync", "PG.C06_empty_err_last"], oracle=True)
prop("C07", "proof", "Lean 4 theorems over all inputs and all lookup functions + differential correspondence",
     "Kernel-checked theorems about remapText rc rf, the one model function behind ProguardMapper::remap_stacktrace and ProguardCache::remap_stacktrace, for every input text and every class/frame lookup: the output is the in-order concatenation of the per-line renderings (first-line rule for line 0, later-line rule otherwise) — no line dropped, duplicated or reordered; each line becomes max(1, #resolved frames) segments, each ending in the one appended newline, by exactly the property's case analysis; with lookups that know nothing the output is the input with normalised terminators; the mapper's frame lookup returns nothing for an unknown class. Tied to both Rust copies by the differential run (generated traces, arbitrary Unicode, CRLF, missing final newline) and by an identity oracle on the implementation.",
     "remapText never fails in the model; the Rust fmt::Error arm is unreachable when writing into a String (trusted).",
     theorems=["PG.C07_linewise", "PG.C07_render_cases", "PG.C07_frame_count", "PG.C07_identity", "PG.C07_mapper_unknown", "PG.C07_lines_no_newline"], oracle=True)
prop("C08", "proof", "Lean 4 theorems over all traces and all lookup functions + differential correspondence",
     "Kernel-checked theorems about remapTyped rc rf (the model function behind remap_stacktrace_typed of mapper and cache) for every trace and every class/frame lookup: same cause-chain depth; every throwable at every level is remapped or kept unchanged (none dropped); every frame is replaced by its remapped frames or kept when it does not resolve; and for every trace in canonical printed form (TraceWF) printing the typed result equals the text API's output for the printed input. Tied to both Rust copies by the differential run (structured and parsed traces, depth <= 4) and by a structural oracle on the implementation.",
     "Canonical printed form = the well-formedness predicate TraceWF of PG/Props/C17.lean (top level has an exception or a frame, every cause has an exception, components free of their delimiters).",
     theorems=["PG.C08_depth", "PG.C08_exception", "PG.C08_frames", "PG.C08_agrees"], oracle=True)
prop("C09", "proof", "Lean 4 theorem: every written file satisfies an independent format decoder + well-formedness predicate, and the self-test; the same predicate is run on the crate's bytes",
     "Kernel-checked, for every record list in the representable domain whose tables fit the u32 counters: the bytes of the cache writer decode with Format.decode — a decoder written in Lean from the documented format only (PG/Spec/Format.lean, sharing no code with the reader model) — into a file satisfying Format.WF: correct magic, version and counts; class entries strictly sorted by obfuscated name whose member and by-params ranges tile their sections exactly, in class order; members sorted by name within a class, by-params entries by (name, params); 8-byte aligned sections with zero padding; a string section of exactly the declared length that ends the file, in which every referenced offset is a LEB128-length-prefixed valid UTF-8 string or, where the format allows absence, the sentinel; and the model of ProguardCache::test() accepts the parsed file, and the Display view of the cache (src/cache/debug.rs, whose name reads are unwrap()ed) is total on it. On every run the crate's bytes are compared with the model's, the same Format.check is evaluated on the bytes the crate actually wrote (FMT), and test() is called on them.",
     "Model hand-written; tie is differential. ReprR/Small as in C02.",
     theorems=["PG.C09_wf", "PG.C09_check", "PG.C09_selftest", "PG.C09_display_total"], needs_layout=True, fmt=True)
prop("C10", "proof", "Lean 4 theorems (layout frozen against the current source, reader compatibility on every buffer) + cross-release differential run",
     "Kernel-checked: (1) layout_frozen — re-checked on every run against PG/Generated/Layout.lean, which is regenerated from /repo/src/cache/raw.rs: while the source declares format version 1 its magic, the names/types/order of the Header, Class and Member fields and the Class sentinels are exactly those of the pinned release, so a layout or sentinel change without a version bump breaks a proof obligation; (2) C10_reader_compat — for every buffer and every line-based frame query, whenever the frozen model of the 5.5.0 reader answers, the current reader model gives the identical answer (all other primitive queries are the same model functions); C10_no_fault — the 5.5.0 reader's unchecked arithmetic cannot fault on buffers of the shape either release writes from mappings with line numbers < 2^32; C10_version_gate — any other version is rejected with the wrong-version error. Both reader models are tied to their crates (vendored 5.5.0 snapshot and current tree) on files written by both writers, and both crates cross-read both writers' files and are compared query for query on every run.",
     "The pinned *writer* is not modelled (repairs F1/F7 changed what the writer emits for some mappings); that both writers' files are read identically by both readers is established by the cross-release differential run, not proved. remap_stacktrace_typed is excluded from the comparison (repair F3 changed it independently of the file format).",
     theorems=["PG.layout_frozen", "PG.layout_model_arity", "PG.C10_reader_compat", "PG.C10_no_fault", "PG.C10_version_gate"], oracle=True, needs_layout=True)
prop("C11", "proof", "Lean 4 theorems (every strict prefix of every written file rejected; parser decision sequence characterised) + differential correspondence",
     "Kernel-checked: for every record list whose tables fit the u32 counters, every strict prefix of the written file is rejected by the parser (stronger than the property: no prefix is even accepted); and for every buffer the parser's decision sequence is characterised in check order — < 24 bytes => InvalidHeader, byte-swapped magic => WrongEndianness, other magic => WrongFormat, other version => WrongVersion, too short for the declared classes => InvalidClasses, for members / by-params entries or their padding => InvalidMembers, fewer string bytes than declared => UnexpectedStringBytes with the exact numbers, else accepted. The reader model is tied to the crate on every prefix of written files (all prefixes of small files, sampled lengths and all section boundaries +-8 of large ones) and every single-field header edit; an oracle on the implementation checks that an accepted prefix answers like the full file.",
     "Buffers are assumed 8-byte aligned (alignment is a function of the file offset in the model; the harness copies every buffer into aligned storage).",
     theorems=["PG.C11_prefix", "PG.C11_kinds", "PG.C11_magic"], oracle=True)
prop("C12", "proof", "Lean 4 theorems for all buffers and queries (index/slice/overflow obligations, slice-of-buffer-or-query) + differential correspondence on corrupted buffers",
     "The reader model is total on arbitrary byte buffers (termination = Lean accepting the definitions). Kernel-checked obligations, for every buffer and query: binary_search_by stays in range for any comparator; find_range's slices are in range and the result is a contiguous all-equal slice; class member / by-params slices are in range or none; LEB128 consumes <= 10 bytes and stays below 2^64; every decoded field is < 2^32 and every returned line < 2^64 (no arithmetic overflow); every string returned by class, method and frame queries is a contiguous slice of the buffer or of the query. The exact mirror of binary_search_by / LEB128 / align_to on unsorted and corrupt data is validated on every run against the crate (field boundary values, swapped records, bit flips, LEB128/UTF-8 damage, random tails), each query under catch_unwind with overflow checks on.",
     "Memory safety of watto's unsafe pointer casts and Rust lifetimes is not modelled; 'slice of the buffer' is proved as list-infix in the model. Text-trace and signature queries return owned strings built from such pieces (excluded, as in the property).",
     theorems=["PG.C12_bsearch_in_range", "PG.C12_bsLoop_lt", "PG.C12_search_in_range", "PG.C12_findRange_slice", "PG.C12_class_slices", "PG.C12_leb_bounded", "PG.C12_readString_slice", "PG.C12_strings_suffix", "PG.C12_fields_u32", "PG.C12_line_bounded", "PG.C12_class_slice", "PG.C12_method_slice", "PG.C12_frame_slices"])
prop("C13", "proof", "Lean 4 theorems (writer output always parses; u32 counters never overflow; saturating line arithmetic; slice bounds) on a total model + differential correspondence under catch_unwind",
     "The model of the whole pipeline is total: every function terminates on every input (Lean accepts the definitions; C06 proves the record iterator's progress). Kernel-checked obligations behind the fallible steps: for every record list whatsoever (truncated line numbers, empty names, invalid lines dropped) whose tables fit the u32 counters, the writer's output is accepted by the parser; every stored field and counter fits u32 and the header sums are the section lengths; the mapper's line arithmetic stays below 2^64 for every query line (saturating); parse_frame's slice bounds are in range. C12 adds the reader-side obligations. Every protocol operation on the crate runs under catch_unwind with overflow checks on: hostile mapping bytes (numbers around 2^32 and 2^64, empty names, invalid UTF-8, token mutations, byte soups) x every query kind incl. extreme lines and multi-byte characters at slice boundaries; a panic, an error or a disagreement with the model is a violation.",
     "Small (counts < 2^32, string section < 2^32-1 bytes) is assumed: mapping files of several GiB are outside what the format can represent. Memory safety of unsafe casts is not modelled.",
     theorems=["PG.C13_write_parse_ok", "PG.C13_bytes_pipeline", "PG.C13_counters", "PG.C13_line_bounded", "PG.C13_frame_slice"])
prop("C14", "other", "Lean 4 model as the single reference value + theorem (re-checked against a list regenerated from the source on every run) that hash-ordered containers are only used through order-free operations + repeated/threaded/multi-process runs",
     "Every written cache equals the Lean model's bytes; writes are repeated in-process, from 8 threads and in >= 8 fresh processes (fresh hash seeds), after failed writes and from reused buffers, and compared; length equals the length implied by the header (theorem). Kernel-checked: the operations the current source applies to its HashMap/HashSet values (extracted into PG/Generated/HashOps.lean on every run) are all order-free (insert, contains, get, entry, clear, …; no iteration), and under such operations any two internal orders give the same answers and permutation-equivalent states — so a per-process hash seed cannot reach the output. A static audit re-establishes on every run that the code behind the writer has no hidden state (statics, thread-locals, cells, atomics, locks), no sources of nondeterminism and no hand-rolled hashing.",
     "Partial by nature: schedules, allocation addresses and hash seeds are runtime behaviour; the model supplies the unique reference value, the theorems show why the seed is unobservable, the runs observe it.", oracle=True, theorems=["PG.C14_length", "PG.C14_header", "PG.C14_function", "PG.C14_hash_ops_order_free", "PG.C14_membership_order_indep", "PG.C14_lookup_order_indep"],
     explanation="Determinism across processes/threads is runtime behaviour no Lean model exhibits; the check ties every written file to the single value computed by the Lean model and repeats writes across threads and >= 8 processes.")
prop("C15", "proof", "Lean 4 theorems over all deterministic sinks (arbitrary state machines) + differential correspondence",
     "Kernel-checked theorems for every sink (arbitrary state machine answering accept-k / interrupted / fail to each write call), every fuel and every record list: success => accepted bytes = canonical serialisation; always a prefix of it; a sink failure forces result = failed; any sink accepting >= 1 byte per call makes writing succeed. The write_all / chunk-sequence model is tied to the crate by position-based sink policies (outcome independent of how the writer chunks its calls) and by call-indexed scripts (short / fail / interrupted at every call index, chunk sizes 1..16) on the implementation.",
     "The theorems are about the model's chunk sequence and write_all loop; that ProguardCache::write issues exactly write_all calls on those bytes is what the differential run checks (F6 was exactly a violation of that).",
     theorems=["PG.C15_success", "PG.C15_prefix", "PG.C15_propagates", "PG.C15_logFail_same", "PG.C15_chunking", "PG.writeChunksTo_ok", "PG.writeChunksTo_prefix"], oracle=True)
prop("C16", "proof", "Lean 4 theorems over the descriptor grammar (all descriptors, all lookup functions) + differential correspondence",
     "Kernel-checked theorems: every valid descriptor (AST over primitives, object names without ';' and ')', arrays of any depth, any number of parameters) deobfuscates to exactly the rendered Java types for every class-lookup function; strings without '(' / ')' / return type / with an unterminated object type give none; mapper and cache agree on every string. The model function is tied to both Rust copies by the differential run (generated, corrupted, bounded-exhaustive and arbitrary strings).",
     "Proof is about the Lean model of java.rs; the tie model<->code is differential. The code is lenient beyond the property (e.g. '(XI)V'); no theorem forbids that.",
     theorems=["PG.C16_valid", "PG.C16_format", "PG.C16_none_no_open", "PG.C16_none_no_close", "PG.C16_none_no_return", "PG.C16_none_unterminated", "PG.C16_agree"])
prop("C17", "proof", "Lean 4 round-trip theorems over all well-formed traces + differential correspondence",
     "Kernel-checked theorems: for every frame / throwable / trace in the property's domain (FrameWF, ThrowableWF, TraceWF: class without spaces resp. '(', method without dots and '(', file present without colon, message absent or non-empty without surrounding Unicode whitespace, no line feed, line < 2^64, top level has an exception or a frame, every cause has an exception) parse(print x) = x, indentation by four spaces or a tab is tolerated, and printing the parsed trace gives the same text. The Lean parse/print are tied to StackTrace/StackFrame/Throwable try_parse and Display by the differential run and by a round-trip oracle on the implementation.",
     "Hypotheses forced by the proof and not in the property text: class and method contain no '('; frames carry a file (Display prints a missing file as '<unknown>', which parses back as that string).",
     theorems=["PG.C17_frame", "PG.C17_frame_indented", "PG.C17_throwable", "PG.C17_trace", "PG.C17_reprint"], oracle=True)
prop("C18", "other", "Lean 4 SHA-1/UUIDv5 reference with structural theorems + the body of uuid() translated from the source on every run (C18_source) + independent hashlib computation",
     "The property is a defining equation, so restating it proves nothing. Lean supplies an executable SHA-1/UUIDv5 reference, kernel-checked structural theorems (definition unfolds to uuidV5(uuidV5(DNS,'guardsquare.com'), bytes); padding is whole 64-byte blocks; digest has 20 bytes; every identifier has 16 bytes with version nibble 5 and variant bits 10), the body of ProguardMapping::uuid is re-translated from src/mapping.rs on every run and C18_source proves it is exactly new_v5(new_v5(NAMESPACE_DNS, 'guardsquare.com'), the bytes given to new) — no memo, no normalisation; and every run compares the crate's UUID with the Lean reference and with an independent hashlib computation on empty, corpus, LF/CRLF-twin and random inputs, on sub-mappings (section) and clones after the parent was queried, and in one reused buffer.",
     "Partial: that the crate computes this function is established differentially, not proved.",
     theorems=["PG.C18_definition", "PG.C18_pad", "PG.C18_sha1_length", "PG.C18_version_variant", "PG.C18_namespace", "PG.C18_empty", "PG.C18_source"],
     explanation="The specification is the definition of the function; Lean supplies an executable reference and structural theorems (listed as obligations), hashlib an independent second opinion; the tie to the crate is differential.")
prop("C19", "proof", "Lean 4 theorems over all byte strings + differential correspondence",
     "Kernel-checked theorems for every byte string: has_line_info is true iff some method record in the stream carries a line mapping; class/method counts equal the numbers of class/method records; compiler, compiler_version and min_api are the values of the last corresponding headers (a later value-less or non-u32 header resets); is_valid is true iff among the first 50 items a class record is followed by a field or method record. The model's folds are tied to the crate's early-exit loops by the differential run (late evidence, repeated/malformed headers, 49/50/51 leading noise lines, corpus).",
     "The model computes the record list eagerly; that the crate's early-exit loops compute the same answers is what the differential run checks.",
     theorems=["PG.C19_line_info", "PG.C19_counts", "PG.C19_last_header", "PG.C19_valid"])
prop("C20", "other", "compile-time Send+Sync assertions + concurrent differential run + static audit (no interior mutability / statics / thread-locals) and hash-ops theorem re-checked against the source on every run",
     "The harness instantiates Send+Sync assertions for every public handle and result type (losing one breaks the build and is reported); query batches run on 2..16 threads against one shared mapper/cache must equal the sequential answers, which are tied to the Lean model; every handle is built on its own thread and queried on another. On every run a static audit re-establishes that the code has no shared, thread-local or interior-mutable state, and C20_hash_ops_order_free that its hash maps are never iterated.",
     "Partial: auto traits and real interleavings are facts about Rust, not expressible in the model.", oracle=True, theorems=["PG.C20_order_indep", "PG.C20_frames_order_indep", "PG.C20_hash_ops_order_free"],
     explanation="Send/Sync are Rust type-system facts and interleavings are runtime behaviour; checked by compile-time assertions and a randomised concurrent run against sequential answers tied to the Lean model.")

# ---------------------------------------------------------------------------

props_json = {}
for pid, s in P.items():
    props_json[pid] = {k: v for k, v in s.items() if k not in ("text", "note", "technique")}
    if props_json[pid].get("rule") is None:
        props_json[pid].pop("rule")
json.dump(props_json, open(os.path.join(ROOT, "props.json"), "w"), indent=1, sort_keys=True)

checks = []
for pid, s in sorted(P.items()):
    checks.append({
        "property_id": pid,
        "quick_cmd": "./check %s --tier quick" % pid,
        "thorough_cmd": "./check %s --tier thorough" % pid,
        "evidence_file": "evidence/%s.json" % pid,
        "replay_cmd_template": "./check %s --replay {path}" % pid,
        "engine": "lean4-model+correspondence",
        "level_claimed": {"category": s["level"], "text": s["text"], "design_ref": "DESIGN.md §8 / %s" % pid},
        "level_note": s["note"] + " Trusted base: " + "; ".join(COMMON_ASSUME),
        "technique": s["technique"],
    })
manifest = {
    "version": 1,
    "setup_cmd": "./setup.sh",
    "hooks": {
        "guard": "getsentry_rust_proguard_verif",
        "enable": "none needed: every observation goes through the public API; the harness is built with `cargo build --release` (overflow-checks and debug-assertions on) against /repo's working tree",
        "baseline_off_cmd": "cd /repo && cargo test --workspace --no-fail-fast --offline",
        "source_commits": [],
        "add_only": True,
    },
    "engines": [
        {"name": "lean4-model+correspondence", "path": "lean/ harness/ check",
         "serves_properties": sorted(P.keys()),
         "kind_free_text": "hand-written executable Lean 4 model with kernel-checked theorems, tied to the code by a differential harness running the real crate in-process"},
    ],
    "checks": checks,
    "not_applicable": [],
    "notes": "See DESIGN.md. Levels are raised to `proof` per property once its theorems build with clean #print axioms.",
}
json.dump(manifest, open(os.path.join(ROOT, "MANIFEST.json"), "w"), indent=1)
print("wrote props.json and MANIFEST.json (%d checks)" % len(checks))
