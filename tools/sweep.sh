#!/bin/bash
# sweep.sh <tier> <seed> [<seed> ...] — false-alarm sweep: every check, on an untouched copy of /repo's
# HEAD (scratch worktree + harness copy under /tmp/pgsweep, so /repo and evidence/ are left alone),
# for each PRNG seed.  Prints one line per (check, seed) that is not "exit 0".
cd "$(dirname "$0")/.."
ROOT=$PWD
TIER=$1; shift
B=/tmp/pgsweep
rm -rf $B; mkdir -p $B/out
git -C /repo worktree remove --force $B/repo 2>/dev/null
git -C /repo worktree add -q --detach $B/repo HEAD || exit 2
mkdir -p $B/harness; cp -r harness/src $B/harness/src; cp harness/Cargo.lock $B/harness/
sed -e "s|path = \"/repo\"|path = \"$B/repo\"|" -e "s|path = \"../pinned/proguard-5.5.0\"|path = \"$ROOT/pinned/proguard-5.5.0\"|" harness/Cargo.toml > $B/harness/Cargo.toml
export VERIF_REPO=$B/repo VERIF_HARNESS=$B/harness VERIF_OUT=$B/out CARGO_NET_OFFLINE=true
bad=0
for seed in "$@"; do
  for p in $(python3 -c "import json; print(' '.join(sorted(json.load(open('props.json')))))"); do
    s=$(date +%s)
    ./check $p --tier $TIER --seed $seed > $B/out/$p-$seed.log 2>&1
    rc=$?
    if [ $rc -ne 0 ]; then bad=$((bad+1)); echo "ALARM $p seed=$seed rc=$rc $(grep VIOLATION $B/out/$p-$seed.log | head -1)"; cp $B/out/$p-$seed.log work/sweep-$p-$seed.log; fi
  done
  echo "seed $seed done"
done
echo "sweep finished: $bad alarms"
git -C /repo worktree remove --force $B/repo; rm -rf $B
