#!/usr/bin/env python3
"""
neutralcheck.py [--workers N] [ID ...]   — run ALL twenty quick checks against every kept
behaviour-preserving refactoring (/verif/neutral/<id>/refactor.diff): any exit code other than 0
is a false alarm of the machinery (or shows that the refactoring was not neutral after all).  Each worker owns a scratch worktree of
/repo's HEAD and a copy of the harness under /tmp/pgseed/w<k> (VERIF_REPO / VERIF_HARNESS /
VERIF_OUT), so /repo itself is never touched and the seeds run in parallel.  Records the outcome
under "recheck" in meta.json and prints one line per seed.
"""
import json
import os
import shutil
import subprocess
import sys
import threading
import time

ROOT = os.path.dirname(os.path.dirname(os.path.abspath(__file__)))
BASE = "/tmp/pgneut"


def sh(cmd, cwd=None, env=None):
    e = dict(os.environ, CARGO_NET_OFFLINE="true")
    if env:
        e.update(env)
    r = subprocess.run(cmd, shell=True, cwd=cwd, stdout=subprocess.PIPE, stderr=subprocess.STDOUT, text=True, env=e)
    return r.returncode, r.stdout


class Worker(threading.Thread):
    def __init__(self, k, queue, lock, out):
        super().__init__()
        self.k, self.queue, self.lock, self.out = k, queue, lock, out
        self.dir = os.path.join(BASE, "w%d" % k)
        self.repo = os.path.join(self.dir, "repo")
        self.harness = os.path.join(self.dir, "harness")

    def run(self):
        shutil.rmtree(self.dir, ignore_errors=True)
        os.makedirs(os.path.join(self.dir, "out"))
        sh("git -C /repo worktree remove --force %s" % self.repo)
        rc, o = sh("git -C /repo worktree add -q --detach %s HEAD" % self.repo)
        assert rc == 0, o
        os.makedirs(self.harness)
        shutil.copytree(os.path.join(ROOT, "harness", "src"), os.path.join(self.harness, "src"))
        toml = open(os.path.join(ROOT, "harness", "Cargo.toml")).read()
        toml = toml.replace('path = "/repo"', 'path = "%s"' % self.repo).replace('path = "../pinned/proguard-5.5.0"', 'path = "%s/pinned/proguard-5.5.0"' % ROOT)
        open(os.path.join(self.harness, "Cargo.toml"), "w").write(toml)
        shutil.copy(os.path.join(ROOT, "harness", "Cargo.lock"), os.path.join(self.harness, "Cargo.lock"))
        env = {"VERIF_REPO": self.repo, "VERIF_HARNESS": self.harness, "VERIF_OUT": os.path.join(self.dir, "out")}
        while True:
            with self.lock:
                if not self.queue:
                    break
                sid = self.queue.pop(0)
            d = os.path.join(ROOT, "neutral", sid)
            mp = os.path.join(d, "meta.json")
            meta = json.load(open(mp)) if os.path.exists(mp) else {"id": sid}
            sh("git checkout -- . && git clean -fdq", cwd=self.repo)
            rc, o = sh("git apply %s" % os.path.join(d, "refactor.diff"), cwd=self.repo)
            if rc != 0:
                with self.lock:
                    print(sid, "patch does not apply", flush=True)
                    self.out.append((sid, "noapply"))
                continue
            t0 = time.time()
            # the refactoring must keep the existing suite green
            rc, o = sh("cargo test --offline --lib --tests 2>&1 | grep -E '^test result|FAILED|^error' | head", cwd=self.repo, env={"CARGO_TARGET_DIR": os.path.join(self.dir, "target")})
            meta["suite_ok"] = ("FAILED" not in o) and ("error" not in o) and ("test result: ok" in o)
            alarms = {}
            props = sorted(json.load(open(os.path.join(ROOT, "props.json"))))
            for prop in props:
                rc, o = sh("./check %s --tier quick" % prop, cwd=ROOT, env=env)
                if rc != 0:
                    viol = [l for l in o.split("\n") if l.startswith("VIOLATION") or l.startswith("INFRA")]
                    alarms[prop] = {"exit": rc, "line": viol[0] if viol else o[-300:]}
                    rp = None
                    if viol and "replay=" in viol[0]:
                        rp = os.path.join(self.dir, "out", viol[0].split("replay=")[1].split()[0])
                    if rp and os.path.exists(rp):
                        try:
                            r = json.load(open(rp))
                            alarms[prop]["why"] = [ob.get("name", "") + ": " + ob.get("note", "")[:300] for ob in r.get("broken_obligations", [])][:4] or (r.get("detail", "")[:400])
                            alarms[prop]["ops"] = [x[:300] for x in r.get("ops_decoded", [])][:3]
                        except Exception:
                            pass
            meta["alarms"] = alarms
            meta["wall_s"] = round(time.time() - t0, 1)
            meta["at"] = time.strftime("%Y-%m-%d %H:%M:%S")
            json.dump(meta, open(mp, "w"), indent=1)
            kind = "quiet" if not alarms else "ALARM " + ",".join(sorted(alarms))
            with self.lock:
                print("%s suite_ok=%s %s (%.0fs)" % (sid, meta["suite_ok"], kind, time.time() - t0), flush=True)
                self.out.append((sid, kind))
        sh("git -C /repo worktree remove --force %s" % self.repo)
        shutil.rmtree(self.dir, ignore_errors=True)


def main():
    args = sys.argv[1:]
    workers = 6
    if args and args[0] == "--workers":
        workers = int(args[1])
        args = args[2:]
    ids = args or sorted(os.listdir(os.path.join(ROOT, "neutral")))
    ids = [i for i in ids if os.path.exists(os.path.join(ROOT, "neutral", i, "refactor.diff"))]
    lock = threading.Lock()
    out = []
    ws = [Worker(k, ids, lock, out) for k in range(min(workers, len(ids)))]
    for w in ws:
        w.start()
    for w in ws:
        w.join()
    sh("git -C /repo worktree prune")
    print("alarms:", sorted((s, k) for s, k in out if k != "quiet"))


if __name__ == "__main__":
    main()
