#!/usr/bin/env python3
"""
seedrecheck.py [--workers N] [ID ...]   — re-run the target property's quick check against every
kept seeded change (/verif/seeded/<id>/patch.diff).  Each worker owns a scratch worktree of
/repo's HEAD and a copy of the harness under /tmp/pgseed/w<k> (VERIF_REPO / VERIF_HARNESS /
VERIF_OUT), so /repo itself is never touched and the seeds run in parallel.  Records the outcome
under "recheck" in meta.json and prints one line per seed.
"""
import json
import os
import shutil
import subprocess
import sys
import threading
import time

ROOT = os.path.dirname(os.path.dirname(os.path.abspath(__file__)))
BASE = "/tmp/pgseed"


def sh(cmd, cwd=None, env=None):
    e = dict(os.environ, CARGO_NET_OFFLINE="true")
    if env:
        e.update(env)
    r = subprocess.run(cmd, shell=True, cwd=cwd, stdout=subprocess.PIPE, stderr=subprocess.STDOUT, text=True, env=e)
    return r.returncode, r.stdout


class Worker(threading.Thread):
    def __init__(self, k, queue, lock, out):
        super().__init__()
        self.k, self.queue, self.lock, self.out = k, queue, lock, out
        self.dir = os.path.join(BASE, "w%d" % k)
        self.repo = os.path.join(self.dir, "repo")
        self.harness = os.path.join(self.dir, "harness")

    def run(self):
        shutil.rmtree(self.dir, ignore_errors=True)
        os.makedirs(os.path.join(self.dir, "out"))
        sh("git -C /repo worktree remove --force %s" % self.repo)
        rc, o = sh("git -C /repo worktree add -q --detach %s HEAD" % self.repo)
        assert rc == 0, o
        os.makedirs(self.harness)
        shutil.copytree(os.path.join(ROOT, "harness", "src"), os.path.join(self.harness, "src"))
        toml = open(os.path.join(ROOT, "harness", "Cargo.toml")).read()
        toml = toml.replace('path = "/repo"', 'path = "%s"' % self.repo).replace('path = "../pinned/proguard-5.5.0"', 'path = "%s/pinned/proguard-5.5.0"' % ROOT)
        open(os.path.join(self.harness, "Cargo.toml"), "w").write(toml)
        shutil.copy(os.path.join(ROOT, "harness", "Cargo.lock"), os.path.join(self.harness, "Cargo.lock"))
        env = {"VERIF_REPO": self.repo, "VERIF_HARNESS": self.harness, "VERIF_OUT": os.path.join(self.dir, "out")}
        while True:
            with self.lock:
                if not self.queue:
                    break
                sid = self.queue.pop(0)
            d = os.path.join(ROOT, "seeded", sid)
            mp = os.path.join(d, "meta.json")
            meta = json.load(open(mp))
            prop = meta["property"]
            sh("git checkout -- . && git clean -fdq", cwd=self.repo)
            rc, o = sh("git apply %s" % os.path.join(d, "patch.diff"), cwd=self.repo)
            if rc != 0:
                with self.lock:
                    print(sid, "patch no longer applies", flush=True)
                    self.out.append((sid, "noapply"))
                continue
            t0 = time.time()
            rc, o = sh("./check %s --tier quick" % prop, cwd=ROOT, env=env)
            viol = [l for l in o.split("\n") if l.startswith("VIOLATION")]
            meta["recheck"] = {"exit": rc, "violation_line": viol[0] if viol else None, "wall_s": round(time.time() - t0, 1),
                               "at": time.strftime("%Y-%m-%d %H:%M:%S")}
            json.dump(meta, open(mp, "w"), indent=1)
            kind = "MISSED" if rc != 1 else ("caught(no-input)" if viol and "no-failing-input-found" in viol[0] else "caught")
            with self.lock:
                print("%s %s exit=%d %s (%.0fs)" % (sid, prop, rc, kind, time.time() - t0), flush=True)
                self.out.append((sid, kind))
        sh("git -C /repo worktree remove --force %s" % self.repo)
        shutil.rmtree(self.dir, ignore_errors=True)


def main():
    args = sys.argv[1:]
    workers = 6
    if args and args[0] == "--workers":
        workers = int(args[1])
        args = args[2:]
    ids = args or sorted(os.listdir(os.path.join(ROOT, "seeded")))
    ids = [i for i in ids if os.path.exists(os.path.join(ROOT, "seeded", i, "meta.json"))]
    lock = threading.Lock()
    out = []
    ws = [Worker(k, ids, lock, out) for k in range(min(workers, len(ids)))]
    for w in ws:
        w.start()
    for w in ws:
        w.join()
    sh("git -C /repo worktree prune")
    print("missed:", sorted(s for s, k in out if k == "MISSED"))
    print("caught only through a static obligation:", sorted(s for s, k in out if k == "caught(no-input)"))


if __name__ == "__main__":
    main()
