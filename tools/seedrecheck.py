#!/usr/bin/env python3
"""
seedrecheck.py [ID ...]   — re-run the target property's quick check against every kept seeded
change (/verif/seeded/<id>/patch.diff): apply to /repo, ./check <property>, undo.  Records the
outcome under "recheck" in meta.json and prints one line per seed.  /repo must be clean.
"""
import json
import os
import subprocess
import sys
import time

ROOT = os.path.dirname(os.path.dirname(os.path.abspath(__file__)))


def sh(cmd, cwd=None):
    r = subprocess.run(cmd, shell=True, cwd=cwd, stdout=subprocess.PIPE, stderr=subprocess.STDOUT, text=True,
                       env=dict(os.environ, CARGO_NET_OFFLINE="true"))
    return r.returncode, r.stdout


def main():
    ids = sys.argv[1:] or sorted(os.listdir(os.path.join(ROOT, "seeded")))
    rc, o = sh("git -C /repo status --short")
    if o.strip():
        print("/repo is not clean:", o)
        sys.exit(2)
    missed = []
    for sid in ids:
        d = os.path.join(ROOT, "seeded", sid)
        mp = os.path.join(d, "meta.json")
        if not os.path.exists(mp):
            continue
        meta = json.load(open(mp))
        prop = meta["property"]
        rc, o = sh("git -C /repo apply %s" % os.path.join(d, "patch.diff"))
        if rc != 0:
            print(sid, "patch no longer applies")
            continue
        try:
            t0 = time.time()
            rc, o = sh("./check %s --tier quick" % prop, cwd=ROOT)
            viol = [l for l in o.split("\n") if l.startswith("VIOLATION")]
            meta["recheck"] = {"exit": rc, "violation_line": viol[0] if viol else None, "wall_s": round(time.time() - t0, 1),
                               "at": time.strftime("%Y-%m-%d %H:%M:%S")}
        finally:
            sh("git -C /repo checkout -- .")
        json.dump(meta, open(mp, "w"), indent=1)
        ok = rc == 1 and viol and "no-failing-input-found" not in viol[0]
        print("%s %s exit=%d %s" % (sid, prop, rc, "caught" if ok else ("caught(no-input)" if rc == 1 else "MISSED")))
        if rc != 1:
            missed.append(sid)
    print("missed:", missed)


if __name__ == "__main__":
    main()
