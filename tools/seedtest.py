#!/usr/bin/env python3
"""
seedtest.py <PROP> <k> [--checks C01,C02,...]

Confirms a seeded change produced by a sub-agent (in /tmp/seed-<PROP>-out/change<k>.diff with
demo<k>.rs, notes<k>.md), then runs /verif's checks against it and records the outcome in
/verif/seeded/<PROP>-<k>/.

 1. scratch worktree /tmp/seedchk-<PROP>-<k> of /repo HEAD: apply change, full `cargo test` must pass;
    the demo must fail with the change and pass without it; worktree removed afterwards.
 2. apply the change to /repo, run the checks (quick tier), undo it (git checkout -- .).
"""
import json
import os
import shutil
import subprocess
import sys
import time

ROOT = os.path.dirname(os.path.dirname(os.path.abspath(__file__)))
SCRATCH_OUT = "/tmp/pgseedtest-out"


def sh(cmd, cwd=None, env=None, timeout=3600):
    e = dict(os.environ, CARGO_NET_OFFLINE="true")
    if env:
        e.update(env)
    r = subprocess.run(cmd, shell=True, cwd=cwd, env=e, stdout=subprocess.PIPE, stderr=subprocess.STDOUT, text=True, timeout=timeout)
    return r.returncode, r.stdout


def main():
    prop, k = sys.argv[1], sys.argv[2]
    checks = [prop]
    if "--checks" in sys.argv:
        checks = sys.argv[sys.argv.index("--checks") + 1].split(",")
    src = os.environ.get("SEED_SRC", "/tmp/seed-%s-out") % prop
    diff = os.path.join(src, "change%s.diff" % k)
    demo = os.path.join(src, "demo%s.rs" % k)
    notes = os.path.join(src, "notes%s.md" % k)
    for f in (diff, demo):
        if not os.path.exists(f):
            print("missing", f)
            sys.exit(2)
    out = os.path.join(ROOT, "seeded", "%s-%s%s" % (prop, os.environ.get("SEED_TAG", ""), k))
    os.makedirs(out, exist_ok=True)
    meta = {"property": prop, "index": int(k), "confirmed": {}, "checks": {}}
    wt = "/tmp/seedchk-%s-%s" % (prop, k)
    sh("git -C /repo worktree remove --force %s" % wt)
    rc, o = sh("git -C /repo worktree add -q --detach %s HEAD" % wt)
    if rc != 0:
        print(o)
        sys.exit(2)
    env = {"CARGO_TARGET_DIR": wt + "/target"}
    try:
        rc, o = sh("git apply %s" % diff, cwd=wt)
        meta["confirmed"]["applies"] = rc == 0
        if rc != 0:
            print("patch does not apply:\n" + o)
        rc, o = sh("cargo test --workspace --no-fail-fast --offline 2>&1 | grep -E '^test result|FAILED|^error' ", cwd=wt, env=env)
        ok = ("FAILED" not in o) and ("error:" not in o) and ("error[" not in o) and ("test result: ok" in o)
        meta["confirmed"]["suite_passes_with_change"] = ok
        meta["confirmed"]["suite_output"] = o[-1500:]
        feat = " --features uuid" if prop == "C18" else ""
        if feat:
            rcf, of = sh("cargo test --workspace --no-fail-fast --offline --features uuid 2>&1 | grep -E '^test result|FAILED|^error' ", cwd=wt, env=env)
            okf = ("FAILED" not in of) and ("error:" not in of) and ("error[" not in of) and ("test result: ok" in of)
            meta["confirmed"]["suite_passes_with_change"] = meta["confirmed"]["suite_passes_with_change"] and okf
        shutil.copy(demo, os.path.join(wt, "tests", "seed_demo.rs"))
        rc1, o1 = sh("cargo test --offline --test seed_demo%s 2>&1 | tail -25" % feat, cwd=wt, env=env)
        fails_with = ("test result: FAILED" in o1 or "panicked" in o1 or "could not compile" in o1 or "error[E" in o1
                      or "has overflowed its stack" in o1 or "SIGABRT" in o1 or "signal: 6" in o1 or "SIGSEGV" in o1)
        meta["confirmed"]["demo_fails_with_change"] = fails_with
        sh("git checkout -- src", cwd=wt)
        rc2, o2 = sh("cargo test --offline --test seed_demo%s 2>&1 | tail -8" % feat, cwd=wt, env=env)
        passes_without = "test result: ok" in o2 and "FAILED" not in o2
        meta["confirmed"]["demo_passes_without_change"] = passes_without
        meta["confirmed"]["demo_output_with_change"] = o1[-1200:]
    finally:
        sh("git -C /repo worktree remove --force %s" % wt)
        shutil.rmtree(wt, ignore_errors=True)
    confirmed = all(meta["confirmed"].get(x) for x in ("applies", "suite_passes_with_change", "demo_fails_with_change", "demo_passes_without_change"))
    meta["confirmed"]["all"] = confirmed
    # run the checks against /repo with the change applied
    rc, o = sh("git -C /repo status --short")
    if o.strip():
        print("/repo is not clean; refusing:", o)
        sys.exit(2)
    rc, o = sh("git -C /repo apply %s" % diff)
    try:
        for c in checks:
            t0 = time.time()
            # (own output directory: the evidence files under /verif describe the unchanged tree)
            os.makedirs(SCRATCH_OUT, exist_ok=True)
            rc, o = sh("./check %s --tier quick" % c, cwd=ROOT, env={"VERIF_OUT": SCRATCH_OUT})
            viol = [l for l in o.split("\n") if l.startswith("VIOLATION")]
            meta["checks"][c] = {"exit": rc, "violation_line": viol[0] if viol else None, "wall_s": round(time.time() - t0, 1),
                                 "tail": o[-600:]}
            if viol:
                # keep the replay next to the seed
                rp = viol[0].split("replay=")[1].split()[0]
                try:
                    shutil.copy(os.path.join(SCRATCH_OUT, rp), os.path.join(out, "replay-%s.json" % c))
                except OSError:
                    pass
    finally:
        sh("git -C /repo checkout -- .")
    shutil.copy(diff, os.path.join(out, "patch.diff"))
    shutil.copy(demo, os.path.join(out, "demo.rs"))
    if os.path.exists(notes):
        shutil.copy(notes, os.path.join(out, "notes.md"))
        meta["needs"] = open(notes).read()[:1500]
    meta["ran"] = ["cargo test --workspace --no-fail-fast --offline (with change, scratch worktree)",
                   "cargo test --offline --test seed_demo (with and without change)",
                   "git -C /repo apply patch.diff; " + "; ".join("./check %s --tier quick" % c for c in checks) + "; git -C /repo checkout -- ."]
    json.dump(meta, open(os.path.join(out, "meta.json"), "w"), indent=1)
    caught = [c for c, v in meta["checks"].items() if v["exit"] == 1]
    print("%s-%s%s confirmed=%s caught_by=%s missed_by=%s" % (prop, os.environ.get("SEED_TAG", ""), k, confirmed, caught, [c for c in checks if c not in caught]))


if __name__ == "__main__":
    main()
