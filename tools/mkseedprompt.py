#!/usr/bin/env python3
"""mkseedprompt.py <PROP> <round-tag>  — prints the brief for a seeding sub-agent and creates its
scratch worktree /tmp/seed<tag>-<PROP> (+ output dir).  Only the property text goes in."""
import json, os, subprocess, sys
ROOT = os.path.dirname(os.path.dirname(os.path.abspath(__file__)))
prop, tag = sys.argv[1], sys.argv[2]
p = [json.loads(l) for l in open(os.path.join(ROOT, "properties.jsonl")) if json.loads(l)["id"] == prop][0]
wt = "/tmp/seed%s-%s" % (tag, prop)
out = wt + "-out"
subprocess.run("git -C /repo worktree remove --force %s" % wt, shell=True, capture_output=True)
subprocess.run("rm -rf %s %s; git -C /repo worktree add -q --detach %s HEAD && mkdir -p %s" % (wt, out, wt, out), shell=True, check=True)
extra = open(os.path.join(ROOT, "tools/prompts/round-%s-extra.txt" % tag)).read() if os.path.exists(os.path.join(ROOT, "tools/prompts/round-%s-extra.txt" % tag)) else ""
feat = " For this property also build and test with `--features uuid` (the `uuid()` API is behind that feature); the uuid and sha1_smol crates are in the offline cargo cache." if prop == "C18" else ""
print(f"""You are helping to evaluate a verification tool by planting a realistic bug.

You have your own scratch git worktree of the Rust crate getsentry/rust-proguard (a library that parses ProGuard/R8 mapping files, remaps Java stack traces, and serialises mappings into a binary cache format) at {wt}. Work ONLY inside {wt} and write your deliverables to {out}. Do NOT read, list or modify anything under /verif or /repo, and do not look at other directories under /tmp. The sandbox has no network; use `cargo build --offline` / `cargo test --offline` (set CARGO_NET_OFFLINE=true). To save disk, use `CARGO_TARGET_DIR={wt}/target`.{feat}

Here is a semantic property the library is supposed to satisfy:

TITLE: {p['title']}

STATEMENT: {p['statement']}

QUANTIFIED OVER: {p['quantifier']['text']}

Your task: make TWO different, independent source changes to the crate (each as its own patch against the unmodified worktree HEAD) such that each change
  (a) still compiles,
  (b) keeps the ENTIRE existing test suite green (`cargo test --offline` — unit tests, integration tests under tests/, and doctests must all still pass), and
  (c) breaks the property above.
Prefer subtle, realistic changes of the kind a maintainer could plausibly make in a refactor or "optimisation" (an off-by-one in a boundary comparison, a changed sort key or comparator, a dropped reset of per-class state, a `checked_`/`saturating_` op replaced by a plain one, a `write_all` replaced by `write`, an early exit, a cache/memo added, a first-vs-last rule flipped, a sentinel changed in one place only, …) and prefer changes that need something SPECIFIC to manifest — an unusual but legal input, a particular multi-step sequence, a boundary value, two cooperating sites that each look fine alone — rather than changes ordinary use would expose at once. The two changes should break the property in different ways / at different code sites. Do not change or delete existing tests. Do not change the public API signatures.

For each change k in {{1,2}} deliver in {out}:
  - change{{k}}.diff : `git diff` of the source change against HEAD (only files under src/), applicable with `git apply` at the repository root;
  - demo{{k}}.rs : a self-contained integration test file (to be dropped into tests/) with one or more #[test] functions that FAIL with the change applied and PASS on the unmodified HEAD. It must only use the crate's public API (`proguard::...`);
  - notes{{k}}.md : 5–15 lines: what the change is, why the existing tests do not notice, exactly what input/sequence is needed to make it manifest, and the observed wrong behaviour.
Verify all of this yourself before finishing: for each change, (1) apply it, run the full `cargo test --offline` and confirm everything passes; (2) copy demo{{k}}.rs into tests/, confirm it fails with the change; (3) `git stash`/revert the source change, confirm the demo passes on HEAD; then restore the worktree to a clean HEAD state (`git checkout -- . && git clean -fd tests/`) — leave no modifications in the worktree at the end; the deliverables live only in {out}. When done, remove {wt}/target to free disk. In your final message, summarise in a few lines what each change does and confirm the verification steps you ran and their outcomes.
{extra}""")
