#!/bin/bash
# coverage.sh [tier] — measures which regions/lines of /repo/src the correspondence inputs reach.
# Builds the harness with -C instrument-coverage (nightly: llvm-tools) into a scratch target dir,
# runs generator + protocol executor + oracle of every property, and writes
#   work/coverage/report.txt   (llvm-cov report for /repo/src)
#   work/coverage/uncovered.txt (uncovered line ranges per file)
# Not part of any check: a tool for judging and improving the generators (DESIGN §4).
set -e
cd "$(dirname "$0")/.."
TIER=${1:-quick}
T=/tmp/pgh-cov-target
BIN=/root/.rustup/toolchains/nightly-x86_64-unknown-linux-gnu/lib/rustlib/x86_64-unknown-linux-gnu/bin
OUT=work/coverage
rm -rf $OUT; mkdir -p $OUT/prof
export CARGO_NET_OFFLINE=true
(cd harness && RUSTFLAGS="-C instrument-coverage" CARGO_TARGET_DIR=$T cargo +nightly build --release --offline 2>&1 | tail -2)
PGH=$T/release/pgh
for p in $(python3 -c "import json; print(' '.join(sorted(json.load(open('props.json')))))"); do
  export LLVM_PROFILE_FILE="$PWD/$OUT/prof/$p-%p-%m.profraw"
  $PGH gen $p $TIER 1 $OUT/$p.tagged > /dev/null 2>&1 || true
  cat corpus/$p/*.cases 2>/dev/null | grep -v '^#' > $OUT/$p.all || true
  cat $OUT/$p.tagged >> $OUT/$p.all
  cut -c3- $OUT/$p.all > $OUT/$p.cases
  PGH_FMT=1 $PGH run $OUT/$p.cases $OUT/$p.impl > /dev/null 2>&1 || echo "run $p failed"
  $PGH oracle $p $TIER 1 > $OUT/$p.oracle 2>/dev/null || true
  rm -f $OUT/$p.tagged $OUT/$p.all $OUT/$p.cases $OUT/$p.impl
done
$BIN/llvm-profdata merge -sparse $OUT/prof/*.profraw -o $OUT/all.profdata
rm -rf $OUT/prof
$BIN/llvm-cov report $PGH -instr-profile=$OUT/all.profdata /repo/src > $OUT/report.txt 2>&1
$BIN/llvm-cov show $PGH -instr-profile=$OUT/all.profdata /repo/src --show-line-counts-or-regions > $OUT/show.txt 2>&1
python3 - <<'PY'
import re
out=[]; cur=None
for l in open('work/coverage/show.txt'):
    m=re.match(r'^(/repo/src/\S+):$', l)
    if m: cur=m.group(1); continue
    m=re.match(r'^\s*(\d+)\|\s*0\|(.*)$', l)
    if m and cur: out.append("%s:%s: %s"%(cur,m.group(1),m.group(2).rstrip()))
open('work/coverage/uncovered.txt','w').write("\n".join(out)+"\n")
print(len(out),"uncovered lines")
PY
cat $OUT/report.txt
