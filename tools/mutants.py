#!/usr/bin/env python3
"""
mutants.py [--workers N] [--files a.rs,b.rs] [--limit N] [--shard i/n] [--resume]

Systematic mutation testing of the checks (not part of any check).  Generates single-site
syntactic mutants of /repo/src (non-test code), and for each one, in a scratch worktree under
/tmp/pgmut/w<k> (never in /repo):

  1. `cargo build` — does not compile        -> stillborn
  2. `cargo test --lib --tests` fails          -> killed by the existing suite (uninteresting)
  3. the quick checks of the properties whose model mirrors the mutated file, until one
     exits 1                                   -> killed by <check> (concrete input / no-input)
  4. none fires                                -> SURVIVOR (equivalent mutant, or a gap in the tie)

Results are appended to work/mutants/results.jsonl; survivors are summarised at the end.
"""
import hashlib
import json
import os
import re
import shutil
import subprocess
import sys
import threading
import time

ROOT = os.path.dirname(os.path.dirname(os.path.abspath(__file__)))
sys.path.insert(0, ROOT)
BASE = "/tmp/pgmut"
RESULTS = os.path.join(ROOT, "work", "mutants", "results.jsonl")

# the order in which the checks are tried per file (most specific first)
CHECKS_FOR = {
    "mapping.rs": ["C05", "C06", "C19", "C18", "C01", "C02", "C03", "C04", "C13", "C09", "C14", "C07", "C16"],
    "mapper.rs": ["C01", "C03", "C04", "C02", "C07", "C08", "C16", "C13", "C20"],
    "cache/raw.rs": ["C02", "C09", "C03", "C11", "C10", "C15", "C14", "C12", "C13", "C01", "C04"],
    "cache/mod.rs": ["C02", "C12", "C01", "C03", "C04", "C07", "C08", "C16", "C10", "C11", "C13", "C09"],
    "cache/debug.rs": ["C09"],
    "java.rs": ["C16", "C02", "C12", "C13"],
    "stacktrace.rs": ["C17", "C07", "C08", "C02", "C12", "C13"],
}

OPS = [
    # (name, regex, replacement)  — applied to one match at a time
    ("rel<=to<", r" <= ", " < "), ("rel<to<=", r" < ", " <= "), ("rel>=to>", r" >= ", " > "), ("rel>to>=", r" > ", " >= "),
    ("eq", r" == ", " != "), ("ne", r" != ", " == "),
    ("and", r" && ", " || "), ("or", r" \|\| ", " && "),
    ("plus", r" \+ ", " - "), ("minus", r" - ", " + "),
    ("plus1", r"\+ 1\b", "+ 0"), ("plus1b", r"\+ 1\b", "+ 2"), ("minus1", r"- 1\b", "- 0"),
    ("pluseq", r" \+= ", " -= "),
    ("not", r"if !", "if "), ("not2", r"\(!", "("),
    ("zero", r"\b0\b(?!\.)", "1"), ("one", r"\b1\b(?!\.)", "0"), ("two", r"\b2\b(?!\.)", "3"), ("fifty", r"\b50\b", "49"), ("eight", r"\b8\b", "4"),
    ("u32max", r"u32::MAX", "0"), ("u32max1", r"u32::MAX", "(u32::MAX - 1)"), ("usizemax", r"usize::MAX", "0"),
    ("satsub", r"saturating_sub", "wrapping_sub"), ("satadd", r"saturating_add", "wrapping_add"),
    ("min", r"\.min\(", ".max("), ("max", r"\.max\(", ".min("),
    ("rsplit", r"\brsplit_once\b", "split_once"), ("split", r"(?<![r_])split_once\b", "rsplit_once"),
    ("rfind", r"\brfind\b", "find"), ("find", r"(?<![r_.a-z])find\(", "rfind("),
    ("first", r"\.first\(\)", ".last()"), ("last", r"\.last\(\)", ".first()"),
    ("issome", r"\.is_some\(\)", ".is_none()"), ("isnone", r"\.is_none\(\)", ".is_some()"),
    ("isempty", r"(\b[\w.]+)\.is_empty\(\)", r"!\1.is_empty()"),
    ("trim", r"\.trim\(\)", ".trim_start()"), ("trim2", r"\.trim\(\)", ".trim_end()"), ("trimend", r"\.trim_end\(\)", ".trim()"),
    ("starts", r"\.starts_with\(", ".ends_with("), ("ends", r"\.ends_with\(", ".starts_with("),
    ("continue", r"\bcontinue;", "break;"), ("break", r"\bbreak;", "continue;"),
    ("less", r"Ordering::Less", "Ordering::Greater"), ("greater", r"Ordering::Greater", "Ordering::Less"),
    ("orinsert", r"\.insert\(", ".entry_insert_first("),  # placeholder: usually stillborn
    ("true", r"\btrue\b", "false"), ("false", r"\bfalse\b", "true"),
    ("some_none", r"return Some\(([^;]*)\);", "return None;"),
    ("ok_unwrap_or_default", r"\.unwrap_or_default\(\)", ".unwrap()"),
    ("take", r"\.take\((\w+)\)", r".take(\1 + 1)"), ("skip", r"\.skip\((\w+)\)", r".skip(\1 + 1)"),
    ("rev", r"\.rev\(\)", ""), ("sortdedup", r"\.dedup\(\);", ";"),
    ("as_u32", r" as u32\b", " as u16 as u32"),
    ("len", r"\.len\(\)", ".len().saturating_sub(1)"),
    ("splitn", r"splitn\(2,", "splitn(3,"),
    ("lines", r"\.lines\(\)", ".split('\\n')"),
    ("caused_by", r'"Caused by: "', '"Caused by:"'),
    ("at", r'"at "', '"at"'),
    ("arrow", r'b" -> "', 'b"->"'),
    # second generation
    ("and-left-true", r"if ([^{]+?) && ", "if true && "), ("and-right-true", r" && ([^{&|]+?) \{", " && true {"),
    ("or-left-false", r"if ([^{]+?) \|\| ", "if false || "),
    ("range-end-1", r"\[([^\[\]]*)\.\.([^\[\]=]+)\]", r"[\1..\2 - 1]"), ("range-start+1", r"\[([^\[\].][^\[\]]*)\.\.([^\[\]]*)\]", r"[\1 + 1..\2]"),
    ("range-inclusive", r"\.\.=", ".."), ("range-exclusive", r"(\w)\.\.(\w)", r"\1..=\2"),
    ("cmp-rev", r"(\w+)\.cmp\(&?(\w+)\)", r"\2.cmp(&\1)"),
    ("unwrap_or", r"\.unwrap_or\(([^()]*)\)", r".unwrap_or(Default::default())"),
    ("ok_or-none", r"\.filter\(", ".filter(|_| true).filter("),
    ("then_with", r"\.then_with\(", ".then("),
    ("some-arg", r"Some\((\w+)\)\s*=>", r"Some(\1) if false =>"),
    ("get-1", r"\.get\((\w+)\)", r".get(\1 + 1)"),
    ("char-dot", r"'\.'", "'$'"), ("char-dollar", r"'\$'", "'.'"), ("char-colon", r"':'", "';'"), ("char-paren", r"'\('", "'['"),
    ("char-semi", r"';'", "':'"), ("char-L", r"'L'", "'l'"), ("char-bracket", r"'\['", "'('"), ("char-slash", r"'/'", "'.'"),
    ("byte-colon", r"b':'", "b';'"), ("byte-nl", r"b'\\n'", "b'\\r'"), ("byte-cr", r"b'\\r'", "b'\\n'"), ("byte-hash", r"b'#'", "b'!'"),
    ("byte-paren", r"b'\('", "b'['"), ("byte-dot", r"b'\.'", "b'$'"), ("byte-space", r"b' '", "b'_'"),
    ("saturating_sub-plain", r"\.saturating_sub\(([^()]*)\)", r".wrapping_sub(\1)"),
    ("ends_with-semicolon", r"\[';'\]", "[')']"),
    ("is_ascii", r"is_ascii_digit", "is_ascii_alphanumeric"), ("is_numeric", r"is_numeric\(\)", "is_ascii_digit()"),
    ("clone-default", r"(\w+)\.clone\(\)", r"Default::default()"),
    ("sort-key", r"\.sort_by_key\(", ".sort_by_cached_key("),
    ("extend-skip", r"\.extend\(", ".extend(std::iter::empty().chain("),
    ("splitn3", r"splitn\(2,", "splitn(1,"), ("rsplitn", r"rsplitn\(2,", "splitn(2,"),
    ("next-back", r"\.next_back\(\)", ".next()"),
    ("trim-matches", r"\.trim_start\(\)", ".trim()"),
    ("lines-keepends", r"\.lines\(\)", ".split_inclusive('\\n')"),
]
DELETE_STMT = re.compile(r"^\s*(?:[\w.\[\]]+\.(?:clear|push|push_str|insert|extend|sort|sort_by|sort_by_key|dedup|remove|truncate|retain)\b.*;|[\w.\[\]]+\s*(?:=|\+=|-=)\s*[^=].*;)\s*$")


def sh(cmd, cwd=None, env=None, timeout=1800):
    e = dict(os.environ, CARGO_NET_OFFLINE="true")
    if env:
        e.update(env)
    try:
        r = subprocess.run(cmd, shell=True, cwd=cwd, env=e, stdout=subprocess.PIPE, stderr=subprocess.STDOUT, text=True, timeout=timeout)
        return r.returncode, r.stdout
    except subprocess.TimeoutExpired as ex:
        return 124, "TIMEOUT " + (ex.stdout or b"").decode("utf-8", "replace")[-500:] if isinstance(ex.stdout, bytes) else "TIMEOUT"


def code_lines(path):
    """(line index, text) of non-test, non-comment lines"""
    lines = open(path, encoding="utf-8").read().split("\n")
    out = []
    in_block = False
    for i, l in enumerate(lines):
        if re.match(r"\s*#\[cfg\(test\)\]", l):
            break
        st = l.strip()
        if in_block:
            if "*/" in st:
                in_block = False
            continue
        if st.startswith("/*"):
            in_block = "*/" not in st
            continue
        if not st or st.startswith("//") or st.startswith("#["):
            continue
        out.append(i)
    return lines, out


def gen_mutants(files):
    muts = []
    for rel in files:
        path = os.path.join("/repo/src", rel)
        lines, idxs = code_lines(path)
        for i in idxs:
            l = lines[i]
            code = l.split("//")[0] if '"' not in l else l
            for name, rx, rep in OPS:
                for m in re.finditer(rx, code):
                    new = code[:m.start()] + m.expand(rep) + code[m.end():] + l[len(code):]
                    if new != l:
                        muts.append({"file": rel, "line": i + 1, "op": name, "old": l.strip(), "new": new.strip(), "text": new})
            if DELETE_STMT.match(l):
                muts.append({"file": rel, "line": i + 1, "op": "delete-stmt", "old": l.strip(), "new": "", "text": ""})
            # third generation: swap two adjacent one-line statements of equal indentation
            if i + 1 in idxs and l.rstrip().endswith(";") and lines[i + 1].rstrip().endswith(";"):
                ind = len(l) - len(l.lstrip())
                l2 = lines[i + 1]
                if ind == len(l2) - len(l2.lstrip()) and l.strip() != l2.strip() and l.count("(") == l.count(")") and l2.count("(") == l2.count(")") \
                        and not l.lstrip().startswith(("use ", "pub use", ")", "}", ".")) and not l2.lstrip().startswith((")", "}", ".")):
                    muts.append({"file": rel, "line": i + 1, "op": "swap-stmts", "old": l.strip() + " / " + l2.strip(), "new": l2.strip() + " / " + l.strip(),
                                 "text": l2, "text2": l})
    # stable ids
    for m in muts:
        m["id"] = hashlib.sha1(("%s:%d:%s:%s" % (m["file"], m["line"], m["op"], m["new"])).encode()).hexdigest()[:10]
    seen = set()
    uniq = []
    for m in muts:
        k = (m["file"], m["line"], m["text"])
        if k not in seen:
            seen.add(k)
            uniq.append(m)
    return uniq


class Worker(threading.Thread):
    def __init__(self, k, queue, lock, quick_only):
        super().__init__()
        self.k = k
        self.queue = queue
        self.lock = lock
        self.dir = os.path.join(BASE, "w%d" % k)
        self.repo = os.path.join(self.dir, "repo")
        self.harness = os.path.join(self.dir, "harness")
        self.out = os.path.join(self.dir, "out")
        self.quick_only = quick_only

    def setup(self):
        shutil.rmtree(self.dir, ignore_errors=True)
        os.makedirs(self.dir)
        sh("git -C /repo worktree remove --force %s" % self.repo)
        rc, o = sh("git -C /repo worktree add -q --detach %s HEAD" % self.repo)
        assert rc == 0, o
        os.makedirs(self.harness)
        shutil.copytree(os.path.join(ROOT, "harness", "src"), os.path.join(self.harness, "src"))
        toml = open(os.path.join(ROOT, "harness", "Cargo.toml")).read()
        toml = toml.replace('path = "/repo"', 'path = "%s"' % self.repo).replace('path = "../pinned/proguard-5.5.0"', 'path = "%s/pinned/proguard-5.5.0"' % ROOT)
        open(os.path.join(self.harness, "Cargo.toml"), "w").write(toml)
        shutil.copy(os.path.join(ROOT, "harness", "Cargo.lock"), os.path.join(self.harness, "Cargo.lock"))
        os.makedirs(self.out, exist_ok=True)

    def run(self):
        self.setup()
        env = {"CARGO_TARGET_DIR": os.path.join(self.dir, "target")}
        while True:
            with self.lock:
                if not self.queue:
                    break
                m = self.queue.pop(0)
            t0 = time.time()
            res = dict(m)
            res.pop("text", None)
            res.pop("text2", None)
            path = os.path.join(self.repo, "src", m["file"])
            sh("git checkout -- .", cwd=self.repo)
            lines = open(path, encoding="utf-8").read().split("\n")
            lines[m["line"] - 1] = m["text"]
            if "text2" in m:
                lines[m["line"]] = m["text2"]
            open(path, "w", encoding="utf-8").write("\n".join(lines))
            rc, o = sh("cargo build --offline --features uuid 2>&1 | tail -5", cwd=self.repo, env=env)
            if "error" in o and "Finished" not in o:
                res["status"] = "stillborn"
            else:
                rc, o = sh("cargo test --offline --lib --tests 2>&1 | grep -E '^test result|FAILED|^error|panicked' | head -20", cwd=self.repo, env=env, timeout=900)
                if "FAILED" in o or "error" in o or "test result: ok" not in o or rc == 124:
                    res["status"] = "killed-by-suite"
                else:
                    res["status"] = "survivor"
                    res["checks"] = {}
                    cenv = {"VERIF_REPO": self.repo, "VERIF_HARNESS": self.harness, "VERIF_OUT": self.out}
                    for c in CHECKS_FOR.get(m["file"], []):
                        rc, o = sh("./check %s --tier quick" % c, cwd=ROOT, env=cenv, timeout=1800)
                        viol = [l for l in o.split("\n") if l.startswith("VIOLATION")]
                        res["checks"][c] = rc
                        if rc == 1:
                            res["status"] = "killed-by-check"
                            res["killed_by"] = c
                            res["no_input"] = bool(viol and "no-failing-input-found" in viol[0])
                            break
                        if rc not in (0, 1):
                            res.setdefault("infra", []).append((c, o[-400:]))
            res["wall_s"] = round(time.time() - t0, 1)
            with self.lock:
                with open(RESULTS, "a") as f:
                    f.write(json.dumps(res) + "\n")
                print("[w%d] %s %s:%d %s  %s%s  (%ss, %d left)" % (self.k, res["status"], m["file"], m["line"], m["op"], res.get("killed_by", ""),
                      " no-input" if res.get("no_input") else "", res["wall_s"], len(self.queue)), flush=True)
        sh("git -C /repo worktree remove --force %s" % self.repo)
        shutil.rmtree(self.dir, ignore_errors=True)


def main():
    args = sys.argv[1:]
    workers = 8
    files = list(CHECKS_FOR)
    limit = None
    only = None
    shard = None
    resume = False
    i = 0
    while i < len(args):
        if args[i] == "--workers":
            workers = int(args[i + 1]); i += 2
        elif args[i] == "--files":
            files = args[i + 1].split(","); i += 2
        elif args[i] == "--limit":
            limit = int(args[i + 1]); i += 2
        elif args[i] == "--shard":
            a, b = args[i + 1].split("/"); shard = (int(a), int(b)); i += 2
        elif args[i] == "--resume":
            resume = True; i += 1
        elif args[i] == "--ids":
            only = set(args[i + 1].split(",")); i += 2
        elif args[i] == "--rerun-no-input":
            only = {r["id"] for r in latest_results() if r.get("no_input")}; i += 1
        elif args[i] == "--rerun-survivors":
            only = {r["id"] for r in latest_results() if r["status"] == "survivor"}; i += 1
        elif args[i] == "--list":
            ms = gen_mutants(files)
            print(len(ms), "mutants")
            from collections import Counter
            print(Counter(m["file"] for m in ms))
            return
        elif args[i] == "--summary":
            summary(); return
        else:
            print(__doc__); sys.exit(2)
    os.makedirs(os.path.dirname(RESULTS), exist_ok=True)
    ms = gen_mutants(files)
    # deterministic shuffle so that a partial run samples all files / operators
    ms.sort(key=lambda m: hashlib.sha1(m["id"].encode()).hexdigest())
    if only is not None:
        ms = [m for m in ms if m["id"] in only]
    if shard:
        ms = [m for j, m in enumerate(ms) if j % shard[1] == shard[0]]
    if resume and os.path.exists(RESULTS):
        done = {json.loads(l)["id"] for l in open(RESULTS) if l.strip()}
        ms = [m for m in ms if m["id"] not in done]
    if limit:
        ms = ms[:limit]
    print(len(ms), "mutants to run with", workers, "workers", flush=True)
    lock = threading.Lock()
    ws = [Worker(k, ms, lock, True) for k in range(workers)]
    for w in ws:
        w.start()
    for w in ws:
        w.join()
    sh("git -C /repo worktree prune")
    summary()


def latest_results():
    """the last recorded result per mutant"""
    by = {}
    for l in open(RESULTS):
        if l.strip():
            r = json.loads(l)
            by[r["id"]] = r
    return list(by.values())


def summary():
    from collections import Counter
    current = {m["id"] for m in gen_mutants(list(CHECKS_FOR))}
    rs = [r for r in latest_results() if r["id"] in current]   # (results for an older HEAD are ignored)
    c = Counter(r["status"] for r in rs)
    print(dict(c))
    alive = [r for r in rs if r["status"] in ("survivor", "killed-by-check")]
    killed = [r for r in alive if r["status"] == "killed-by-check"]
    print("passed the existing suite: %d; killed by a check: %d (%d with a concrete input); survivors: %d" % (
        len(alive), len(killed), len([r for r in killed if not r.get("no_input")]), len(alive) - len(killed)))
    for r in alive:
        if r["status"] == "survivor":
            print("SURVIVOR %s:%d [%s] %s  ->  %s" % (r["file"], r["line"], r["op"], r["old"][:90], r["new"][:90]))


if __name__ == "__main__":
    main()
