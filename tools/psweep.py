#!/usr/bin/env python3
"""
psweep.py <tier> [--workers N] [--props C01,C02] <seed> [<seed> ...]  — parallel false-alarm sweep: every
check on an untouched copy of /repo's HEAD, for each PRNG seed.  Each worker owns a scratch
worktree and a copy of the harness under /tmp/pgpsweep/w<k>, so /repo and evidence/ are left alone.
Prints one line per (check, seed); logs of alarms are kept in work/.
"""
import json
import os
import shutil
import subprocess
import sys
import threading
import time

ROOT = os.path.dirname(os.path.dirname(os.path.abspath(__file__)))
BASE = "/tmp/pgpsweep"


def sh(cmd, cwd=None, env=None):
    e = dict(os.environ, CARGO_NET_OFFLINE="true")
    if env:
        e.update(env)
    r = subprocess.run(cmd, shell=True, cwd=cwd, stdout=subprocess.PIPE, stderr=subprocess.STDOUT, text=True, env=e)
    return r.returncode, r.stdout


class Worker(threading.Thread):
    def __init__(self, k, queue, lock, out):
        super().__init__()
        self.k, self.queue, self.lock, self.out = k, queue, lock, out
        self.dir = os.path.join(BASE, "w%d" % k)
        self.repo = os.path.join(self.dir, "repo")
        self.harness = os.path.join(self.dir, "harness")

    def run(self):
        shutil.rmtree(self.dir, ignore_errors=True)
        os.makedirs(os.path.join(self.dir, "out"))
        sh("git -C /repo worktree remove --force %s" % self.repo)
        rc, o = sh("git -C /repo worktree add -q --detach %s HEAD" % self.repo)
        assert rc == 0, o
        os.makedirs(self.harness)
        shutil.copytree(os.path.join(ROOT, "harness", "src"), os.path.join(self.harness, "src"))
        toml = open(os.path.join(ROOT, "harness", "Cargo.toml")).read()
        toml = toml.replace('path = "/repo"', 'path = "%s"' % self.repo).replace('path = "../pinned/proguard-5.5.0"', 'path = "%s/pinned/proguard-5.5.0"' % ROOT)
        open(os.path.join(self.harness, "Cargo.toml"), "w").write(toml)
        shutil.copy(os.path.join(ROOT, "harness", "Cargo.lock"), os.path.join(self.harness, "Cargo.lock"))
        env = {"VERIF_REPO": self.repo, "VERIF_HARNESS": self.harness, "VERIF_OUT": os.path.join(self.dir, "out")}
        while True:
            with self.lock:
                if not self.queue:
                    break
                sid = self.queue.pop(0)
            prop, seed = sid
            t0 = time.time()
            rc, o = sh("./check %s --tier %s --seed %s" % (prop, TIER, seed), cwd=ROOT, env=env)
            viol = [l for l in o.split("\n") if l.startswith("VIOLATION")]
            if rc != 0:
                open(os.path.join(ROOT, "work", "psweep-%s-%s.log" % (prop, seed)), "w").write(o)
            with self.lock:
                print("%s seed=%s rc=%d %.0fs %s" % (prop, seed, rc, time.time() - t0, viol[0] if viol else ""), flush=True)
                self.out.append((sid, rc))
        sh("git -C /repo worktree remove --force %s" % self.repo)
        shutil.rmtree(self.dir, ignore_errors=True)


def main():
    global TIER
    args = sys.argv[1:]
    TIER = args.pop(0)
    workers = 4
    props = sorted(json.load(open(os.path.join(ROOT, "props.json"))))
    while args and args[0].startswith("--"):
        if args[0] == "--workers":
            workers = int(args[1])
        elif args[0] == "--props":
            props = args[1].split(",")
        args = args[2:]
    tasks = [(p, s) for s in args for p in props]
    lock = threading.Lock()
    out = []
    ws = [Worker(k, tasks, lock, out) for k in range(min(workers, len(tasks)))]
    for w in ws:
        w.start()
    for w in ws:
        w.join()
    sh("git -C /repo worktree prune")
    print("sweep finished: %d alarms" % len([1 for _, rc in out if rc != 0]))


if __name__ == "__main__":
    main()
