#!/usr/bin/env python3
"""Compare every theorem statement in lean/PG/Props (and the lemma interfaces) with the version
first committed (the skeleton with `sorry` written before the proof search was delegated).
Prints, per file, the theorems whose statement text changed or disappeared."""
import subprocess, re, glob, os
def heads(src):
    out = {}
    for m in re.finditer(r'^theorem\s+([\w\.\']+)(.*?)(?::=)', src, re.M | re.S):
        out[m.group(1)] = re.sub(r'\s+', ' ', m.group(2)).strip()
    return out
os.chdir(os.path.dirname(os.path.dirname(os.path.abspath(__file__))))
files = sorted(glob.glob('lean/PG/Props/*.lean')) + ['lean/PG/Lemmas/%s.lean' % x for x in
        ('BSearch', 'Sorted', 'StrTab', 'Serial', 'WriterInv', 'CacheQueries')]
for f in files:
    commits = subprocess.run(['git', 'log', '--format=%h', '--follow', '--', f], capture_output=True, text=True).stdout.split()
    if not commits:
        continue
    first = commits[-1]
    name = subprocess.run(['git', 'log', '--format=', '--name-only', '--follow', '--', f], capture_output=True, text=True).stdout.split()[-1]
    old = subprocess.run(['git', 'show', '%s:%s' % (first, name)], capture_output=True, text=True).stdout
    ho, hn = heads(old), heads(open(f).read())
    print(os.path.basename(f), 'first commit', first, '| changed:', [k for k in ho if k in hn and ho[k] != hn[k]],
          '| gone:', [k for k in ho if k not in hn])
