#!/bin/bash
# Offline setup: build the Lean model/proofs and the Rust harness from files on disk only.
set -e
cd "$(dirname "$0")"
export CARGO_NET_OFFLINE=true
mkdir -p work evidence replays
./check --layout
(cd lean && lake build 2>&1 | tail -5)
# property theorem modules (those registered in props.json)
MODS=$(python3 -c "import json; print(' '.join(v.get('module','PG.Props.'+k) for k,v in sorted(json.load(open('props.json')).items()) if v.get('theorems')))")
if [ -n "$MODS" ]; then (cd lean && lake build $MODS 2>&1 | tail -3); fi
[ -f harness/Cargo.lock ] || cp /repo/Cargo.lock harness/Cargo.lock
(cd harness && cargo build --release --offline 2>&1 | tail -3)
# unoptimised build for the deep-input probe of C06 / C13
(cd harness && cargo build --offline 2>&1 | tail -1)
echo "setup done"
