#!/bin/bash
# Offline setup: build the Lean model/proofs and the Rust harness from files on disk only.
set -e
cd "$(dirname "$0")"
export CARGO_NET_OFFLINE=true
mkdir -p work evidence replays
python3 - <<'PY'
import importlib.util, sys
spec = importlib.util.spec_from_loader("check", importlib.machinery.SourceFileLoader("check", "./check"))
m = importlib.util.module_from_spec(spec); spec.loader.exec_module(m)
print("layout extractor:", m.extract_layout())
PY
(cd lean && lake build 2>&1 | tail -5)
[ -f harness/Cargo.lock ] || cp /repo/Cargo.lock harness/Cargo.lock
(cd harness && cargo build --release --offline 2>&1 | tail -3)
echo "setup done"
